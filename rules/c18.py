"""C18 — auto-07p export addresses every parameter and state consistently (DESIGN §4 C18)."""
from __future__ import annotations

import ast
import re
from typing import Dict, List, Optional, Set, Tuple

from engine import AnalysisError
from engine.srcmodel import walk_shallow, norm, parent, ancestors
from engine.util import call_name, is_attr_of, contains
from .c12 import Scope, Bind, element_origin, strip_wrappers, template_of, templates_in, split_offset, same_expr, _call_args

PROPERTY = "C18"
FORT = "pyrates/backend/fortran/fortran_backend.py"
CG = "pyrates/backend/computegraph.py"
CLS = "FortranBackend"

EXPLANATION = (
    "Decides structural necessary conditions of C18 on FortranBackend (auto-07p export).  R1 single source of PAR slots: the list "
    "returned by _auto_param_indices(func_args, blocked) is the only origin of slot numbers; every use of that list (and of its "
    "rhs_args prefix) is enumerated and must be a zip with the SAME func_args sequence (same reaching definitions), the prefix slice "
    "for a provable prefix of it, max() for NPAR, or the hand-over to _emit_auto_jacobian_block together with that sequence; every "
    "emitted `args(k)`, `__PYR_ARG_k__`, `dfdp(i,k)` hole and the tables handed on as parnames / param_idx must be slot-typed by "
    "def-use (zip partner, name->slot map lookup), and the value written next to a slot must belong to the zip partner; the chain "
    "param_idx -> _compose_bvp_body -> _resolve_bvp_residual is followed.  R2 the declaration-order reordering in "
    "generate_func_head and in _generate_auto_files normalise to the same term (declared names first in _var_declaration_info order, "
    "then the rest), so forwarding args(slot_i) positionally meets the i-th parameter of the subroutine.  R3 states: every emitted "
    "y(k) / unames key / state_indices value is 1 + the enumerate position of the one `state_vars` sequence, which is "
    "ComputeGraph.state_vars = keys of var_updates['DEs'] (layout order); NDIM = len(state_vars); _build_auto_constants_file stores "
    "NDIM/NPAR from its arguments after the scenario defaults.  R4 the time slot passed as `t` is a literal that lies in "
    "_AUTO_BLOCKED_PAR_RANGE, is the ICP of the ivp scenario and of the defaults, and the blocked range reaches _auto_param_indices.  "
    "R5 (added; DESIGN listed it as undecided) _auto_param_indices is evaluated by a bounded interpreter of its own AST for 0..64 "
    "parameters: slots are strictly increasing, start at 1 and avoid auto-07p's reserved PAR(11..14) and every literal ICP slot >= 11.  "
    "R7 (added) every container the exporter reads and the backend fills through `self.<attr>` (declaration table, op-call table, "
    "code lines, imports, helper functions) is bound per instance in an __init__ of FortranBackend's MRO; the shared lint "
    "class_level_mutable_state is armed for the whole backend class family.  "
    "R8 (added) the values of STPNT (`args(k) = v`, `y(i) = v`) and of the c.* files are printed value-preservingly (str/repr/plain "
    "hole/>= 17 significant digits/e->d swap); fewer digits, round(), stripping or replacing digits is a violation.  "
    "R9 (added) parse_equations registers all definitions of an operator in declaration order before every equation; a skip of "
    "that loop must be conditioned on `no definition left`, not on `some argument already is a node`.  "
    "Extracted private emitters are followed: a method that receives the slot list (and the sequence it was computed for) or the "
    "state list is analysed like _generate_auto_files itself; the reordering may be a returned expression of a helper; slots/indices "
    "of unknown provenance end in ANALYSIS-ERROR, not in a violation.  "
    "NOT decided: that the exported vector field equals the model (C01), anything that needs f2py/auto-07p, user-supplied "
    "auto_parnames/auto_unames overrides, slot arithmetic beyond 64 parameters."
)
RULE_TEXT = ("instances = every load of the slot list and every slot-bearing template hole in _generate_auto_files, "
             "_emit_auto_jacobian_block and _resolve_bvp_residual (R1), the two reorderings (R2), every state-index sink (R3), the "
             "constants (R4), 65 parameter counts (R5); decided by reaching definitions, iteration-element provenance, term "
             "normalisation and bounded evaluation of extracted integer code.")
ASSUMPTIONS = [
    "auto-07p reserves PAR(11)..PAR(14) (period, time, ...); PAR(14) is the integration time for IPS=-2 (auto-07p manual).",
    "zip pairs its arguments positionally and stops at the shorter one; dict comprehensions keep iteration order (library).",
]

RESERVED = (11, 12, 13, 14)


def _cls(ctx):
    return ctx.repo.get_class(FORT, CLS)


# methods the rules anchor on (all exist in the pinned tree): they stay calls when a function is viewed with its private helpers
# spliced in; every other private helper (extracted emitters, layout helpers, ...) is inlined statement by statement
_ANCHORS = ("_auto_param_indices", "_emit_auto_jacobian_block", "_compose_bvp_body", "_resolve_bvp_residual",
            "_build_auto_constants_file", "_generate_auto_files")
_VIEWED = ("_generate_auto_files", "generate_func_head")


def _m(ctx, name, raw=False):
    f = ctx.repo.get_func(FORT, f"{CLS}.{name}")
    if raw or name not in _VIEWED:
        return f
    cache = ctx.__dict__.setdefault("_c18_views", {})
    if name not in cache:
        v = f
        try:
            from engine.inline import inlined
            v = inlined(ctx, f, keep=_ANCHORS)
        except (ImportError, AnalysisError):
            v = f
        cache[name] = v
    return cache[name]


def _callee_view(ctx, f):
    from .c12 import analysis_view
    try:
        return analysis_view(ctx, f)
    except AnalysisError:
        return f


def _spliced_into(ctx, view, f) -> bool:
    """was helper `f` spliced into the inlined view (so that its statements are already looked at there)?"""
    return any(h.split("::")[-1] == f.qualname for h in getattr(view, "inlined_helpers", ()) or ())


def _stmt(n):
    while n is not None and not isinstance(n, ast.stmt):
        n = parent(n)
    return n


# =================================================================================================
# R1: one slot list
# =================================================================================================

class SlotModel:
    """Slot typing inside one function.

    lists : name -> ('full' | 'prefix', names-sequence Name node at the defining site)
    maps  : names of dicts  name -> slot
    """

    def __init__(self, ctx, f, S: Scope):
        self.ctx, self.f, self.S = ctx, f, S
        self.lists: Dict[str, Tuple[str, ast.AST, frozenset]] = {}
        self.maps: Set[str] = set()
        self.param_maps: Set[str] = set()

    def defs(self, n: ast.Name) -> frozenset:
        return frozenset(id(d) for d in self.S.rd.defs_reaching(n))

    def _same_core(self, listname: str, x: ast.AST) -> bool:
        kind, seq, seqdefs = self.lists[listname]
        return isinstance(x, ast.Name) and isinstance(seq, ast.Name) and x.id == seq.id and self.defs(x) == seqdefs

    def same_sequence(self, listname: str, x: ast.AST, depth=0) -> bool:
        """`x` is the sequence the slots were computed for, or an element-wise image of it: a name whose one definition is
        `[g(a) for a in SEQ]` / `tuple(g(a) for a in SEQ)` / `list(map(g, SEQ))` without a filter (same length, same order), so
        that zip pairs the i-th slot with the image of the i-th element."""
        if self._same_core(listname, x):
            return True
        if depth > 3 or not isinstance(x, ast.Name):
            return False
        bs = self.S.binds(x)
        if len(bs) != 1 or bs[0].kind != "value" or bs[0].path or bs[0].expr is None:
            return False
        v = bs[0].expr
        while isinstance(v, ast.Call) and isinstance(v.func, ast.Name) and v.func.id in ("tuple", "list") and len(v.args) == 1:
            v = v.args[0]
        src = None
        if isinstance(v, (ast.ListComp, ast.GeneratorExp)) and len(v.generators) == 1 and not v.generators[0].ifs:
            src = v.generators[0].iter
        elif isinstance(v, ast.Call) and isinstance(v.func, ast.Name) and v.func.id == "map" and len(v.args) == 2:
            src = v.args[1]
        elif isinstance(v, ast.Name):
            src = v
        while isinstance(src, ast.Call) and isinstance(src.func, ast.Name) and src.func.id in ("tuple", "list") and len(src.args) == 1:
            src = src.args[0]
        return src is not None and self.same_sequence(listname, src, depth + 1)

    # ---- slot-typed expressions
    def slot_binder(self, e: ast.AST, depth=0):
        """If `e` is a slot number: (binder node or None, description).  None otherwise."""
        if depth > 8:
            return None
        S = self.S
        if isinstance(e, ast.Name):
            bs = S.binds(e)
            if not bs:
                return None
            res = None
            for b in bs:
                r = None
                if b.kind == "iter":
                    role, base, rest = element_origin(b.expr, b.path)
                    if role == "elem" and not rest and isinstance(base, ast.Name) and base.id in self.lists:
                        r = (b.node, f"element of `{base.id}`")
                    elif role == "elem" and not rest and isinstance(base, ast.Subscript) and isinstance(base.slice, ast.Slice) \
                            and isinstance(base.value, ast.Name) and base.value.id in self.lists:
                        r = (b.node, f"element of a slice of `{base.value.id}`")
                    elif role == "value" and not rest and self.is_map(base):
                        r = (b.node, f"value of slot map `{ast.unparse(base)}`")
                elif b.kind == "value" and not b.path and b.expr is not None:
                    r = self.slot_binder(b.expr, depth + 1)
                if r is None:
                    return None
                res = res or r
            return res
        if isinstance(e, ast.Subscript) and self.is_map(e.value):
            return (None, f"lookup in slot map `{ast.unparse(e.value)}`", e.slice)
        if isinstance(e, ast.Call) and isinstance(e.func, ast.Attribute) and e.func.attr == "get" and e.args and self.is_map(e.func.value):
            return (None, f"lookup in slot map `{ast.unparse(e.func.value)}`", e.args[0])
        return None

    def is_map(self, e: ast.AST) -> bool:
        if not isinstance(e, ast.Name):
            return False
        if e.id in self.param_maps and all(b.kind == "param" for b in self.S.binds(e)):
            return True
        bs = self.S.binds(e)
        if len(bs) == 1 and bs[0].kind == "value" and isinstance(bs[0].expr, ast.DictComp):
            return self.slot_binder(bs[0].expr.value) is not None
        if len(bs) == 1 and bs[0].kind == "value" and isinstance(bs[0].expr, ast.Call) and call_name(bs[0].expr) == "dict" \
                and len(bs[0].expr.args) == 1 and isinstance(bs[0].expr.args[0], ast.Call) and call_name(bs[0].expr.args[0]) == "zip":
            z = bs[0].expr.args[0]          # dict(zip(names, slots))
            return len(z.args) == 2 and isinstance(z.args[1], ast.Name) and z.args[1].id in self.lists \
                and self.same_sequence(z.args[1].id, z.args[0])
        return False


def _foreign_slot_reason(S: Scope, M: "SlotModel", e: ast.AST, depth=0) -> Optional[str]:
    """A positive reason why `e` is not a slot of the slot list (it is understood to be something else); None = not understood."""
    if depth > 6 or e is None:
        return None
    if isinstance(e, ast.Constant):
        return f"the literal {e.value!r}"
    if isinstance(e, ast.BinOp):
        return f"computed by arithmetic (`{ast.unparse(e)}`)"
    if isinstance(e, ast.Call) and isinstance(e.func, ast.Name) and e.func.id in ("len", "int", "sum", "max", "min"):
        return f"computed (`{ast.unparse(e)}`)"
    tab = None
    if isinstance(e, ast.Subscript):
        tab = e.value
    elif isinstance(e, ast.Call) and isinstance(e.func, ast.Attribute) and e.func.attr in ("get", "index", "pop") and e.args:
        tab = e.func.value
    if tab is not None:
        if isinstance(tab, ast.Name):
            bs = S.binds(tab)
            if bs and all(b.kind == "value" and b.expr is not None for b in bs):
                return f"looked up in `{tab.id}`, which is not built from the slot list"
        return None
    if isinstance(e, ast.Name):
        for b in S.binds(e):
            if b.kind == "iter":
                role, base, rest = element_origin(b.expr, b.path)
                if role == "index":
                    return f"the enumerate position `{e.id}` in `{ast.unparse(base.args[0])}`"
                it = strip_wrappers(b.expr)
                if isinstance(it, ast.Call) and isinstance(it.func, ast.Name) and it.func.id == "range":
                    return f"the range counter `{e.id}`"
                root = base
                while isinstance(root, (ast.Subscript, ast.Attribute, ast.Call)):
                    root = root.value if not isinstance(root, ast.Call) else root.func
                if isinstance(root, ast.Name) and root.id not in M.lists and not M.is_map(root):
                    rb = S.binds(root)
                    if rb and all(x.kind == "param" for x in rb) and root.id not in M.param_maps:
                        return None         # a parameter of unknown content
                    understood = (ast.List, ast.Tuple, ast.Dict, ast.Set, ast.ListComp, ast.DictComp, ast.SetComp, ast.GeneratorExp)

                    def known(x):
                        x = strip_wrappers(x) if x is not None else None
                        if isinstance(x, understood):
                            return True
                        return isinstance(x, ast.Call) and isinstance(x.func, ast.Name) and x.func.id in (
                            "enumerate", "range", "zip", "dict", "set", "map", "filter")
                    if not rb or not all(x.kind == "value" and known(x.expr) for x in rb):
                        return None         # e.g. the result of a (generator) function: content unknown
                    return f"an element of `{ast.unparse(base)}`, which is not derived from the slot list"
            elif b.kind == "aug":
                return f"the hand-advanced counter `{e.id}`"
            elif b.kind == "value" and not b.path and b.expr is not None:
                r = _foreign_slot_reason(S, M, b.expr, depth + 1)
                if r:
                    return r
    return None


def _partner_names(S: Scope, binder) -> Set[str]:
    """names bound by the same for/comprehension"""
    tgt = binder.target
    return {n.id for n in ast.walk(tgt) if isinstance(n, ast.Name)}


def _mentions_bound_by(S: Scope, e: ast.AST, binder, exclude: Set[str], depth=0) -> bool:
    """does `e` (through single-definition names) mention a name bound by `binder` other than the slot variable?"""
    for n in ast.walk(e):
        if isinstance(n, ast.Name) and isinstance(n.ctx, ast.Load):
            bs = S.binds(n)
            if any(b.node is binder for b in bs) and n.id not in exclude:
                return True
            if depth < 3 and len(bs) == 1 and bs[0].kind == "value" and bs[0].expr is not None and not bs[0].path:
                if _mentions_bound_by(S, bs[0].expr, binder, exclude, depth + 1):
                    return True
    return False


_SLOT_PATTERNS = [
    (re.compile(r"args\(⟨(\d+)⟩\)"), "args(k)"),
    (re.compile(r"__PYR_ARG_⟨(\d+)⟩__"), "__PYR_ARG_k__"),
    (re.compile(r"dfdp\(⟨\d+⟩\s*,\s*⟨(\d+)⟩\)"), "dfdp(i,k)"),
]


def _classify_list_uses(ctx, rid, f, S: Scope, M: SlotModel, callee_hook=None):
    """Every load of a slot-list name must be one of the enumerated forms."""
    # derived prefix lists first (fixed point)
    changed = True
    while changed:
        changed = False
        for st in walk_shallow(f.node):
            if isinstance(st, ast.Assign) and len(st.targets) == 1 and isinstance(st.targets[0], ast.Name) \
                    and st.targets[0].id not in M.lists and isinstance(st.value, ast.Subscript) \
                    and isinstance(st.value.value, ast.Name) and st.value.value.id in M.lists and isinstance(st.value.slice, ast.Slice):
                R = _prefix_bound(S, st.value.slice)
                if R is not None:
                    M.lists[st.targets[0].id] = ("prefix", R, M.defs(R))
                    changed = True
                else:
                    raise AnalysisError(f"{rid}: {f.qual}: `{norm(st)}` slices the slot list in an unrecognised way")
    for n in walk_shallow(f.node):
        if not (isinstance(n, ast.Name) and isinstance(n.ctx, ast.Load) and n.id in M.lists):
            continue
        kind, seq, _ = M.lists[n.id]
        par = parent(n)
        st = _stmt(n)
        label = f"use of {n.id}: {norm(par) if not isinstance(par, ast.stmt) else norm(st)}"
        # (a) zip partner
        if isinstance(par, ast.Call) and isinstance(par.func, ast.Name) and par.func.id == "zip":
            others = [a for a in par.args if a is not n]
            if len(others) != 1:
                raise AnalysisError(f"{rid}: {f.qual}: `{norm(par)}` zips the slot list with {len(others)} sequences (unrecognised)")
            if M.same_sequence(n.id, others[0]):
                ctx.ok(rid, f, st, f"slots of `{n.id}` are paired by zip with `{ast.unparse(others[0])}`, the very sequence they were "
                                   f"computed for (same reaching definitions)", label=label)
            else:
                ctx.violation(rid, f, st, f"`{norm(par)}` pairs the slot list with `{ast.unparse(others[0])}`, which is not the sequence "
                                          f"`{ast.unparse(seq)}` the slots were computed for (other name or re-defined in between): "
                                          f"parameters get the slot numbers of other parameters", label=label)
            continue
        # (b) prefix slice
        if isinstance(par, ast.Subscript) and par.value is n and isinstance(par.slice, ast.Slice):
            ast_st = _stmt(n)
            if isinstance(ast_st, ast.Assign) and ast_st.value is par and len(ast_st.targets) == 1 \
                    and isinstance(ast_st.targets[0], ast.Name) and ast_st.targets[0].id in M.lists:
                tgt = ast_st.targets[0].id
                R = M.lists[tgt][1]
            else:
                # the prefix is not named but iterated where it is taken: `for slot in slots[:len(R)]`
                gp = parent(par)
                R = _prefix_bound(S, par.slice)
                if R is None or not (isinstance(gp, ast.comprehension) and gp.iter is par or isinstance(gp, ast.For) and gp.iter is par):
                    raise AnalysisError(f"{rid}: {f.qual}: `{norm(st)}` slices the slot list in an unrecognised way")
                tgt = ast.unparse(par)
            good, why = _is_prefix_of(S, M, R, n.id)
            if good is None:
                raise AnalysisError(f"{rid}: {f.qual}: cannot decide whether `{R.id}` is a prefix of `{ast.unparse(seq)}` ({why}) for "
                                    f"`{norm(st)}`")
            if good:
                ctx.ok(rid, f, st, f"`{tgt}` is the prefix of the slot list that belongs to `{R.id}`, a prefix of `{ast.unparse(seq)}`",
                       {"why": why}, label=label)
            else:
                ctx.violation(rid, f, st, f"`{norm(st)}` takes the first len({R.id}) slots, but `{R.id}` is not a prefix of "
                                          f"`{ast.unparse(seq)}` ({why}): the forwarded slots belong to other parameters", label=label)
            continue
        # (c) direct iteration
        if isinstance(par, ast.comprehension) and par.iter is n or isinstance(par, ast.For) and par.iter is n:
            ctx.ok(rid, f, st, f"`{n.id}` is iterated in order (its elements are slot numbers)", label=label, nontrivial=False)
            continue
        # (d) max / truth test
        if isinstance(par, ast.Call) and isinstance(par.func, ast.Name) and par.func.id == "max" and par.args == [n]:
            if kind == "full":
                ctx.ok(rid, f, st, "the largest slot of the full slot list (NPAR)", label=label)
            else:
                ctx.violation(rid, f, st, f"max() of the prefix list `{n.id}` does not cover the slots of all parameters", label=label)
            continue
        if isinstance(par, ast.Call) and isinstance(par.func, ast.Name) and par.func.id == "len" and par.args == [n]:
            ctx.ok(rid, f, st, "number of slots (no slot number is taken from it)", label=label, nontrivial=False)
            continue
        if isinstance(par, (ast.IfExp, ast.If, ast.BoolOp, ast.UnaryOp)) :
            ctx.ok(rid, f, st, "emptiness test", label=label, nontrivial=False)
            continue
        # (e) hand-over to a callee
        if isinstance(par, (ast.Call, ast.keyword)) and callee_hook is not None:
            call = par if isinstance(par, ast.Call) else parent(par)
            if callee_hook(call, n, label):
                continue
        raise AnalysisError(f"{rid}: {f.qual}: unrecognised use of the slot list `{n.id}` in `{norm(st)}`")


def _prefix_bound(S: Scope, sl: ast.Slice) -> Optional[ast.Name]:
    """`[:len(R)]` (the bound possibly held in a local): the Name node R; else None"""
    if not isinstance(sl, ast.Slice) or sl.lower is not None or sl.step is not None or sl.upper is None:
        return None
    up = S.single_value(sl.upper)
    if isinstance(up, ast.Call) and call_name(up) == "len" and len(up.args) == 1 and isinstance(up.args[0], ast.Name):
        return up.args[0]
    return None


def _seq_term(S: Scope, e: ast.AST, at, depth=0):
    """Normal form of a sequence-valued expression at statement `at`: (base atom, tuple of right-appended pieces).
    Copies (tuple(x)/list(x)) are transparent, single definitions are inlined; a name with several reaching definitions is an
    atom identified by that set of definitions (so two reads between which it is not re-bound are equal)."""
    if depth > 12:
        return (("expr", ast.dump(e)), ())
    e = _unwrap_copy(e)
    if isinstance(e, ast.BinOp) and isinstance(e.op, ast.Add):
        b, ex = _seq_term(S, e.left, at, depth + 1)
        rb, rex = _seq_term(S, e.right, at, depth + 1)
        return (b, ex + ((rb, rex),))
    if isinstance(e, ast.Name):
        defs = S.rd.defs_reaching_at(at, e.id) if at is not None else []
        if len(defs) == 1 and isinstance(defs[0], ast.Assign):
            d = defs[0]
            for t in d.targets:
                if isinstance(t, ast.Name) and t.id == e.id:
                    return _seq_term(S, d.value, d, depth + 1)
                if isinstance(t, (ast.Tuple, ast.List)) and isinstance(d.value, (ast.Tuple, ast.List)) and len(t.elts) == len(d.value.elts):
                    for te, ve in zip(t.elts, d.value.elts):
                        if isinstance(te, ast.Name) and te.id == e.id:
                            return _seq_term(S, ve, d, depth + 1)
        return (("name", e.id, frozenset(id(d) for d in defs)), ())
    return (("expr", ast.dump(e)), ())


def _unwrap_copy(v: ast.AST) -> ast.AST:
    """tuple(x) / list(x) / [e for e in x] / tuple(e for e in x) -> x (order-preserving element-wise copies)"""
    for _ in range(6):
        if isinstance(v, ast.Call) and isinstance(v.func, ast.Name) and v.func.id in ("tuple", "list") and len(v.args) == 1:
            v = v.args[0]
        elif isinstance(v, (ast.ListComp, ast.GeneratorExp)) and len(v.generators) == 1 and not v.generators[0].ifs \
                and isinstance(v.elt, ast.Name) and isinstance(v.generators[0].target, ast.Name) and v.elt.id == v.generators[0].target.id:
            v = v.generators[0].iter
        else:
            break
    return v


def _rebuilt_from_other_order(v: ast.AST, rname: str) -> Optional[str]:
    """A positive reason why the sequence-valued expression `v` does not start with the elements of `rname` in their order: it is
    produced by filtering / re-ordering ANOTHER iterable (comprehension over something else, sorted/reversed, set algebra)."""
    while isinstance(v, ast.Call) and isinstance(v.func, ast.Name) and v.func.id in ("tuple", "list") and len(v.args) == 1:
        v = v.args[0]
    if isinstance(v, ast.Call) and isinstance(v.func, ast.Name) and v.func.id in ("sorted", "reversed", "set", "frozenset"):
        return f"with `{v.func.id}(..)` (another order)"
    if isinstance(v, ast.BinOp) and isinstance(v.op, (ast.BitOr, ast.BitAnd, ast.Sub, ast.BitXor)):
        return "by set algebra (no order)"
    if isinstance(v, (ast.ListComp, ast.GeneratorExp, ast.SetComp)):
        if isinstance(v, ast.SetComp):
            return "as a set (no order)"
        it = v.generators[0].iter
        while isinstance(it, ast.Call) and isinstance(it.func, ast.Name) and it.func.id in ("tuple", "list", "iter") and len(it.args) == 1:
            it = it.args[0]
        lead = it
        while isinstance(lead, ast.BinOp) and isinstance(lead.op, ast.Add):
            lead = lead.left
        if isinstance(lead, ast.Name) and lead.id == rname and not v.generators[0].ifs and len(v.generators) == 1 \
                and isinstance(v.elt, ast.Name) and isinstance(v.generators[0].target, ast.Name) and v.elt.id == v.generators[0].target.id:
            return None         # an element-wise copy of R (+ extension): still starts with R
        if isinstance(lead, ast.Name) and lead.id == rname:
            return None if not v.generators[0].ifs else f"by filtering `{ast.unparse(it)}` (elements of `{rname}` may drop out)"
        return f"in the order of `{ast.unparse(it)}` (a comprehension over another iterable; `{rname}` only takes part in its filter)"
    return None


def _is_prefix_of(S: Scope, M: SlotModel, R: ast.Name, listname: str) -> Tuple[Optional[bool], str]:
    """Is sequence R a prefix of the sequence the full list was computed for?  True / False (positively not) / None (unknown)."""
    full = [k for k, v in M.lists.items() if v[0] == "full"]
    kind, seq, seqdefs = M.lists[full[0]]
    old: Optional[bool] = None
    why = f"`{R.id}` is not recognisably derived from `{ast.unparse(seq)}`"
    rb = S.binds(R)
    if len(rb) == 1 and rb[0].kind == "value" and not rb[0].path and rb[0].expr is not None:
        src = strip_wrappers(rb[0].expr)
        if isinstance(src, ast.Name) and isinstance(seq, ast.Name) and src.id == seq.id:
            src_defs = frozenset(id(d) for d in S.rd.defs_reaching(src))
            by_id = {id(d): d for d in S.rd.defs_reaching(seq)}
            old = True
            why = f"{R.id} = copy of {src.id}; later definitions only append on the right"
            for did in seqdefs:
                if did in src_defs:
                    continue
                d = by_id.get(did)
                v = _unwrap_copy(d.value) if isinstance(d, ast.Assign) else None
                if isinstance(v, ast.BinOp) and isinstance(v.op, ast.Add) and isinstance(v.left, ast.Name) and v.left.id == R.id:
                    continue
                old = False if isinstance(v, ast.BinOp) and any(isinstance(x, ast.Name) and x.id == R.id for x in ast.walk(v)) else None
                why = f"`{norm(d) if d is not None else '?'}` does not extend `{R.id}` on the right"
                rebuilt = _rebuilt_from_other_order(d.value, R.id) if isinstance(d, ast.Assign) else None
                if rebuilt:
                    old = False
                    why = f"`{norm(d)}` re-builds the sequence {rebuilt}, so `{R.id}` is no longer its leading part"
                break
    if old is not None:
        return old, why
    # general form: compare normal forms, pairwise for every definition when R and the sequence come out of one tuple
    # (`R, A = helper_result` with one (r, a) pair per branch)
    seq_st = _stmt(seq) if getattr(seq, "_parent", None) is not None else None
    use_st = _stmt(R)
    if seq_st is None or use_st is None or not isinstance(seq, ast.Name):
        return None, why
    pairs = None
    dR, dA = S.rd.defs_reaching_at(use_st, R.id), S.rd.defs_reaching_at(seq_st, seq.id)
    if len(dR) == 1 and len(dA) == 1 and dR[0] is dA[0] and isinstance(dR[0], ast.Assign):
        d = dR[0]
        for t in d.targets:
            if isinstance(t, (ast.Tuple, ast.List)):
                names = [x.id if isinstance(x, ast.Name) else None for x in t.elts]
                if R.id in names and seq.id in names:
                    iR, iA = names.index(R.id), names.index(seq.id)
                    v = d.value
                    if isinstance(v, (ast.Tuple, ast.List)) and len(v.elts) == len(names):
                        pairs = [(v.elts[iR], v.elts[iA], d)]
                    elif isinstance(v, ast.Name):
                        pairs = []
                        for dx in S.rd.defs_reaching_at(d, v.id):
                            vx = dx.value if isinstance(dx, ast.Assign) and any(isinstance(tt, ast.Name) and tt.id == v.id for tt in dx.targets) else None
                            if not (isinstance(vx, (ast.Tuple, ast.List)) and len(vx.elts) == len(names)):
                                pairs = None
                                break
                            pairs.append((vx.elts[iR], vx.elts[iA], dx))
    if pairs is None:
        pairs = [(R, seq, None)]
    verdict: Optional[bool] = True
    notes = []
    for r, a, at in pairs:
        tr = _seq_term(S, r, at if at is not None else use_st)
        ta = _seq_term(S, a, at if at is not None else seq_st)
        if tr[0] == ta[0] and ta[1][:len(tr[1])] == tr[1]:
            notes.append(f"`{ast.unparse(r)}` is a prefix of `{ast.unparse(a)}`")
            continue
        if any(piece == tr for piece in ta[1]):
            return False, f"`{ast.unparse(a)}` puts `{ast.unparse(r)}` behind other names"
        rebuilt = _rebuilt_from_other_order(a, r.id) if isinstance(r, ast.Name) else None
        if rebuilt:
            return False, f"`{ast.unparse(a)}` builds the sequence {rebuilt}, so `{r.id}` is not its leading part"
        verdict = None
        why = f"`{ast.unparse(r)}` vs `{ast.unparse(a)}`: no common origin found"
    return (True, "; ".join(notes)) if verdict else (None, why)


def _check_templates(ctx, rid, f, S: Scope, M: SlotModel, time_slot_ok=True) -> int:
    n_sinks = 0
    for node, text, holes in templates_in(f.node):
        if text is None:
            continue
        for pat, what in _SLOT_PATTERNS:
            for m in pat.finditer(text):
                n_sinks += 1
                hole = holes[int(m.group(1))]
                st = _stmt(node)
                shown = text.replace("⟨", "{").replace("⟩", "}")
                label = f"{what} in `{shown}`"
                if len(label) > 150:
                    label = label[:150] + "…"
                sb = M.slot_binder(hole)
                if sb is None and _foreign_slot_reason(S, M, hole) is None:
                    raise AnalysisError(f"{rid}: {f.qual}: cannot determine where the PAR slot `{ast.unparse(hole)}` emitted as {what} in "
                                        f"`{shown}` comes from (unrecognised form)")
                if sb is None:
                    ctx.violation(rid, f, st, f"the PAR slot emitted as {what} is `{ast.unparse(hole)}`, which does not come from the list "
                                              f"returned by _auto_param_indices (not a zip partner of it, not a lookup in a name->slot "
                                              f"map built from it): it ignores the skip over the reserved range and/or the declaration "
                                              f"order", label=label)
                    continue
                # assignment form: the value written next to the slot must belong to the partner
                m2 = re.match(r"^\s*args\(⟨(\d+)⟩\)\s*=\s*(.*)$", text)
                if m2 and sb[0] is not None and isinstance(hole, ast.Name):
                    vals = [holes[int(k)] for k in re.findall(r"⟨(\d+)⟩", m2.group(2))]
                    if not vals or not all(_mentions_bound_by(S, v, sb[0], {hole.id}) for v in vals):
                        ctx.violation(rid, f, st, f"`{shown}`: the value written into the slot is not taken from the parameter that is "
                                                  f"zipped with the slot (`{[ast.unparse(v) for v in vals]}`)", label=label)
                        continue
                # lookup form: the key must be tied to what is emitted (checked by C12-R1 for dfdp); record it
                ctx.ok(rid, f, st, f"{what}: `{ast.unparse(hole)}` is {sb[1]}", label=label)
    # literal slots: only the time slot of the forwarding call (R4) may be a literal
    for node, text, holes in templates_in(f.node):
        for lit in re.findall(r"args\((\d+)\)", text or ""):
            if not re.search(r"\bcall\b", text):
                ctx.violation(rid, f, _stmt(node), f"literal PAR slot args({lit}) outside the forwarding call", label=f"literal args({lit})")
    return n_sinks


def r1_single_slot_list(ctx, rid):
    gen = _m(ctx, "_generate_auto_files")
    S = Scope(ctx, gen)
    selfn = gen.self_name
    calls = [c for c in walk_shallow(gen.node) if isinstance(c, ast.Call) and is_attr_of(c.func, selfn, "_auto_param_indices")]
    ctx.require(len(calls) == 1, f"{rid}: expected one call of _auto_param_indices in _generate_auto_files, found {len(calls)}")
    call = calls[0]
    st = _stmt(call)
    ctx.require(isinstance(st, ast.Assign) and st.value is call and len(st.targets) == 1 and isinstance(st.targets[0], ast.Name)
                and call.args and isinstance(call.args[0], ast.Name),
                f"{rid}: `{norm(st)}`: unrecognised form of the slot-list computation")
    # nobody else produces slot numbers
    others = [c for f in _cls(ctx).methods.values() if f.qualname != gen.qualname
              for c in walk_shallow(f.node)
              if isinstance(c, ast.Call) and call_name(c) == "_auto_param_indices" and c is not call
              and not _spliced_into(ctx, gen, f)]
    ctx.require(not others, f"{rid}: _auto_param_indices is called at {len(others) + 1} places (unrecognised: one slot list expected)")
    M = SlotModel(ctx, gen, S)
    A = call.args[0]
    M.lists[st.targets[0].id] = ("full", A, M.defs(A))
    rebinds = [s for s in walk_shallow(gen.node) if isinstance(s, (ast.Assign, ast.AugAssign)) and s is not st
               and any(isinstance(t, ast.Name) and t.id == st.targets[0].id for t in (s.targets if isinstance(s, ast.Assign) else [s.target]))]
    for s in rebinds:
        ctx.violation(rid, gen, s, f"the slot list `{st.targets[0].id}` is re-bound after it was computed", label=f"rebind {norm(s)}")
    ctx.ok(rid, gen, st, f"slot list computed once from `{A.id}`", {"sequence_defs": [norm(d) for d in S.rd.defs_reaching(A)]},
           label="slot list computed once")

    # ---- hand-over of the slot list to other methods of the backend (the Jacobian block, extracted emitters, ...): the callee is
    # analysed like this function, with its parameter as the slot list and the parameter that receives the same sequence as partner
    analysed: Dict[object, Tuple[str, Optional[str]]] = {}
    sink_count = [0]

    def make_hook(fc, Sc_, Mc, depth):
        def hook(c, n, label):
            if not (isinstance(c.func, ast.Attribute) and is_attr_of(c.func, fc.self_name or "")):
                return False
            targets, how = ctx.cg.resolve_call(fc, c)
            own = ctx.repo.lookup_method(_cls(ctx), c.func.attr)
            callee = own if own is not None and (own in targets or not targets) else (targets[0] if len(targets) == 1 else None)
            if callee is None or callee.cls is None or depth > 3:
                return False
            cparams = [p for p in callee.params if p != callee.self_name]
            if any(isinstance(x, ast.Starred) for x in c.args) or any(k.arg is None for k in c.keywords):
                return False
            a = _call_args(c, cparams)
            slot_params = [k for k, v in a.items() if v is n]
            seq_params = [k for k, v in a.items() if Mc.same_sequence(n.id, v)]
            if len(slot_params) != 1 or slot_params[0] not in cparams:
                return False
            kind = Mc.lists[n.id][0]
            zips_it = any(isinstance(z, ast.Call) and isinstance(z.func, ast.Name) and z.func.id == "zip"
                          and any(isinstance(x, ast.Name) and x.id == slot_params[0] for x in z.args) for z in ast.walk(callee.node))
            is_jac = callee.qualname.endswith("._emit_auto_jacobian_block")
            if len(seq_params) == 1 and (kind == "full" or not is_jac):
                ctx.ok(rid, fc, _stmt(c), f"{callee.qualname.split('.')[-1]} receives the {kind} slot list as `{slot_params[0]}` together "
                                          f"with the same sequence as `{seq_params[0]}`", label=label)
                names_param = seq_params[0]
            elif zips_it or is_jac:
                ctx.violation(rid, fc, _stmt(c), f"`{norm(c)}` hands the slot list to {callee.qualname.split('.')[-1]} without the sequence it "
                                                 f"was computed for (arguments: {[ast.unparse(v) for k, v in a.items() if k not in slot_params]}): "
                                                 f"DFDP columns, __PYR_ARG_ substitutions and args(k) lines use other parameters' slots",
                              label=label)
                return True
            else:
                ctx.ok(rid, fc, _stmt(c), f"{callee.qualname.split('.')[-1]} receives the {kind} slot list as `{slot_params[0]}` (it does not "
                                          f"pair it with names)", label=label, nontrivial=False)
                names_param = None
            prev = analysed.get(callee)
            if prev is not None:
                if prev != (slot_params[0], names_param):
                    raise AnalysisError(f"{rid}: {callee.qual} receives the slot list in two different ways (unrecognised form)")
                return True
            analysed[callee] = (slot_params[0], names_param)
            callee0, callee = callee, _callee_view(ctx, callee)     # private helpers / local generators of the callee spliced in
            Sj = Scope(ctx, callee)
            Mj = SlotModel(ctx, callee, Sj)
            pdefs = frozenset({id(callee.node.args)})
            Mj.lists[slot_params[0]] = (kind, ast.Name(id=names_param or "<none>", ctx=ast.Load()), pdefs)
            base_same = Mj._same_core

            def same_seq_j(listname, x, Mj=Mj, names_param=names_param, slot=slot_params[0]):
                if listname == slot:
                    return names_param is not None and isinstance(x, ast.Name) and x.id == names_param and Mj.defs(x) == pdefs
                return base_same(listname, x)
            Mj._same_core = same_seq_j
            rebound = [s2 for s2 in walk_shallow(callee.node) if isinstance(s2, (ast.Assign, ast.AugAssign, ast.For))
                       and slot_params[0] in [x.id for t in (s2.targets if isinstance(s2, ast.Assign) else [s2.target])
                                              for x in ast.walk(t) if isinstance(x, ast.Name)]]
            for s2 in rebound:
                ctx.violation(rid, callee, s2, f"the slot list `{slot_params[0]}` is re-bound inside {callee.qualname}",
                              label=f"rebind {norm(s2)}")
            _classify_list_uses(ctx, rid, callee, Sj, Mj, make_hook(callee, Sj, Mj, depth + 1))
            sink_count[0] += _check_templates(ctx, rid, callee, Sj, Mj)
            return True
        return hook
    _classify_list_uses(ctx, rid, gen, S, M, make_hook(gen, S, M, 0))
    n_sinks = _check_templates(ctx, rid, gen, S, M)

    # ---- role sinks: parnames / npar / param_idx
    def kw_of(cname, kw):
        out = []
        for c in walk_shallow(gen.node):
            if isinstance(c, ast.Call) and is_attr_of(c.func, selfn, cname):
                for k in c.keywords:
                    if k.arg == kw:
                        out.append((c, k.value))
        return out
    full_name = st.targets[0].id

    def table_check(c, v, kwname, slot_side):
        """v must be a dict comprehension over zip(slot list, same sequence) with the slot on `slot_side` ('key'|'value')"""
        label = f"{kwname}= of {call_name(c)}"
        e = S.single_value(v)
        if isinstance(e, ast.Call) and call_name(e) == "pop" and len(e.args) == 2:      # kwargs.pop('auto_parnames', <default>)
            e = S.single_value(e.args[1])
        if isinstance(e, ast.Call) and call_name(e) == "dict" and len(e.args) == 1 and not e.keywords and isinstance(e.args[0], ast.Call) \
                and call_name(e.args[0]) == "zip" and len(e.args[0].args) == 2:
            # dict(zip(keys, values)): the slot list itself on one side, the (image of the) name sequence on the other
            ks, vs = e.args[0].args
            slot_x, other_x = (ks, vs) if slot_side == "key" else (vs, ks)
            if isinstance(slot_x, ast.Name) and slot_x.id in M.lists and M.lists[slot_x.id][0] == "full" and M.same_sequence(slot_x.id, other_x):
                ctx.ok(rid, gen, _stmt(e), f"`{kwname}` pairs each slot of the slot list with (the image of) its zip partner", label=label)
            elif isinstance(slot_x, ast.Name) and slot_x.id in M.lists:
                ctx.violation(rid, gen, _stmt(e), f"`{kwname}` zips the slot list with `{ast.unparse(other_x)}`, which is not derived "
                                                  f"element by element from the sequence the slots were computed for", label=label)
            elif isinstance(other_x, ast.Name) and other_x.id in M.lists:
                ctx.violation(rid, gen, _stmt(e), f"`{kwname}` has the slot on the wrong side (`{ast.unparse(e)}`)", label=label)
            else:
                why = _foreign_slot_reason(S, M, slot_x) if not isinstance(slot_x, ast.Name) else (
                    "a sequence that is not the slot list" if all(b.kind == "value" for b in S.binds(slot_x)) and S.binds(slot_x) else None)
                if why is None:
                    raise AnalysisError(f"{rid}: `{kwname}`: cannot determine where the tabulated slots `{ast.unparse(slot_x)}` come from")
                ctx.violation(rid, gen, _stmt(e), f"`{kwname}` tabulates `{ast.unparse(slot_x)}` ({why}) instead of the slot list", label=label)
            return
        if not isinstance(e, ast.DictComp):
            raise AnalysisError(f"{rid}: `{kwname}` handed to {call_name(c)} is not a dict comprehension (unrecognised form)")
        slot_e, other_e = (e.key, e.value) if slot_side == "key" else (e.value, e.key)
        sb = M.slot_binder(slot_e)
        if sb is None and _foreign_slot_reason(S, M, slot_e) is None:
            raise AnalysisError(f"{rid}: `{kwname}`: cannot determine where the tabulated slot `{ast.unparse(slot_e)}` comes from "
                                f"(unrecognised form)")
        if sb is None:
            ctx.violation(rid, gen, _stmt(e), f"`{kwname}` tabulates slot `{ast.unparse(slot_e)}`, which does not come from the list returned "
                                              f"by _auto_param_indices: names in c.* / BVP residuals address other PAR slots than "
                                              f"func/stpnt", label=label)
        elif sb[0] is None or not isinstance(slot_e, ast.Name) or not _mentions_bound_by(S, other_e, sb[0], {slot_e.id}):
            ctx.violation(rid, gen, _stmt(e), f"`{kwname}`: the name `{ast.unparse(other_e)}` tabulated with the slot is not the zip "
                                              f"partner of the slot", label=label)
        else:
            ctx.ok(rid, gen, _stmt(e), f"`{kwname}` maps each slot of the slot list to/from its zip partner", label=label)
    pn = kw_of("_build_auto_constants_file", "parnames")
    npar = kw_of("_build_auto_constants_file", "npar")
    pidx = kw_of("_compose_bvp_body", "param_idx")
    ctx.require(len(pn) == 1 and len(npar) == 1 and len(pidx) >= 2, f"{rid}: parnames=/npar=/param_idx= hand-over sites not recognised")
    table_check(pn[0][0], pn[0][1], "parnames", "key")
    seen = set()
    for c, v in pidx:
        key = ast.dump(v)
        if key in seen:
            continue
        seen.add(key)
        table_check(c, v, "param_idx", "value")
    def largest_slot(e, depth=0) -> Optional[bool]:
        """True: max of the full slot list (with any guard for the empty list); False: recognisably something else; None: unknown"""
        e = S.single_value(e)
        if depth > 4:
            return None
        if isinstance(e, ast.IfExp):
            rs = [largest_slot(e.body, depth + 1), largest_slot(e.orelse, depth + 1)]
            consts = [isinstance(S.single_value(x), ast.Constant) for x in (e.body, e.orelse)]
            if True in rs and any(consts):
                return True
            return False if False in rs and not any(r is None for r in rs) else (False if rs == [False, False] else None)
        if isinstance(e, ast.BoolOp) and isinstance(e.op, ast.Or):
            return largest_slot(e.values[0], depth + 1)
        if isinstance(e, ast.Call) and isinstance(e.func, ast.Name) and e.func.id == "max" and len(e.args) == 1:
            a0 = e.args[0]
            for _ in range(4):
                if isinstance(a0, ast.Name) and a0.id in M.lists:
                    return a0.id == full_name
                if isinstance(a0, ast.BoolOp) and isinstance(a0.op, ast.Or):
                    a0 = a0.values[0]
                elif isinstance(a0, ast.Name):
                    bs = S.binds(a0)
                    if len(bs) == 1 and bs[0].kind == "value" and not bs[0].path and bs[0].expr is not None:
                        a0 = bs[0].expr
                    else:
                        break
                else:
                    break
            return False if isinstance(a0, ast.Name) else None
        if isinstance(e, ast.Constant):
            return False
        if isinstance(e, ast.Call) and isinstance(e.func, ast.Name) and e.func.id in ("len", "sum", "min"):
            return False
        if isinstance(e, ast.BinOp):
            return False
        return None
    good = largest_slot(npar[0][1])
    if good is None:
        raise AnalysisError(f"{rid}: npar=`{ast.unparse(npar[0][1])}` handed to _build_auto_constants_file has an unrecognised form")
    if good:
        ctx.ok(rid, gen, _stmt(npar[0][1]), "NPAR is the largest slot of the slot list", label="npar= of _build_auto_constants_file")
    else:
        ctx.violation(rid, gen, _stmt(npar[0][1]), f"NPAR is `{ast.unparse(npar[0][1])}`, not the largest slot of the slot list: with more "
                                                   f"than 9 parameters slots above NPAR are used", label="npar= of _build_auto_constants_file")

    # ---- the Jacobian block must have received the slot list (analysed above through the hand-over)
    ctx.require(any(g.qualname.endswith("._emit_auto_jacobian_block") for g in analysed) or
                any(isinstance(c, ast.Call) and call_name(c) == "_emit_auto_jacobian_block" and any(
                    isinstance(x, ast.Name) and x.id in M.lists for x in list(c.args) + [k.value for k in c.keywords])
                    for c in walk_shallow(gen.node)),
                f"{rid}: the slot list is not handed to _emit_auto_jacobian_block")
    n_sinks += sink_count[0]

    # ---- param_idx -> _compose_bvp_body -> _resolve_bvp_residual
    cb = _m(ctx, "_compose_bvp_body")
    rb = _m(ctx, "_resolve_bvp_residual")
    Sc = Scope(ctx, cb)
    inner = [c for c in walk_shallow(cb.node) if isinstance(c, ast.Call) and is_attr_of(c.func, cb.self_name, "_resolve_bvp_residual")]
    ctx.require(len(inner) == 1, f"{rid}: call of _resolve_bvp_residual in _compose_bvp_body not recognised")
    rparams = [p for p in rb.params if p != rb.self_name]
    a = _call_args(inner[0], rparams)
    recv = [k for k, v in a.items() if isinstance(v, ast.Name) and v.id == "param_idx" and all(b.kind == "param" for b in Sc.binds(v))]
    if len(recv) != 1:
        ctx.violation(rid, cb, inner[0], "the name->slot map `param_idx` is not forwarded unchanged to _resolve_bvp_residual",
                      label="param_idx forwarded")
    else:
        ctx.ok(rid, cb, inner[0], f"the name->slot map is forwarded unchanged as `{recv[0]}`", label="param_idx forwarded", nontrivial=False)
        Sr = Scope(ctx, rb)
        Mr = SlotModel(ctx, rb, Sr)
        Mr.param_maps.add(recv[0])
        k = _check_templates(ctx, rid, rb, Sr, Mr)
        ctx.require(k >= 1, f"{rid}: no __PYR_ARG_ template found in _resolve_bvp_residual")
        n_sinks += k
        # the symbol that is replaced is par_<name of the same map entry>
        for node, text, holes in templates_in(rb.node):
            m = re.match(r"^par_⟨(\d+)⟩$", text or "")
            if m:
                stn = _stmt(node)
                slot_holes = [h for n2, t2, h2 in templates_in(stn) for h in h2 if re.match(r"^__PYR_ARG_⟨\d+⟩__$", t2 or "")]
                hb = Sr.binds(holes[0]) if isinstance(holes[0], ast.Name) else []
                sb = Mr.slot_binder(slot_holes[0]) if slot_holes else None
                if hb and sb and len(hb) == 1 and hb[0].node is sb[0] and element_origin(hb[0].expr, hb[0].path)[0] == "key":
                    ctx.ok(rid, rb, stn, "`par_<name>` is replaced by the slot stored under that name", label="par_<name> -> its own slot")
                else:
                    ctx.violation(rid, rb, stn, "`par_<name>` is replaced by a slot that is not the one stored under that name",
                                  label="par_<name> -> its own slot")
    ctx.require(n_sinks >= 5, f"{rid}: only {n_sinks} slot-bearing templates found (expected args(k) x2, __PYR_ARG_k__ x2, dfdp(i,k))")


# =================================================================================================
# R2: the two declaration-order reorderings
# =================================================================================================

def _term(S: Scope, e: ast.AST, at: Optional[ast.stmt] = None, depth=0):
    """Canonical term of a list-valued expression (α-renamed, single definitions inlined)."""
    if depth > 10:
        return ("?", ast.unparse(e))
    selfn = S.f.self_name
    if isinstance(e, (ast.ListComp, ast.GeneratorExp)) and len(e.generators) == 1 and isinstance(e.generators[0].target, ast.Name) \
            and isinstance(e.elt, ast.Name) and e.elt.id == e.generators[0].target.id:
        g = e.generators[0]
        v = g.target.id
        conds = []
        for c in g.ifs:
            if isinstance(c, ast.Compare) and len(c.ops) == 1 and isinstance(c.left, ast.Name) and c.left.id == v:
                op = type(c.ops[0]).__name__
                rhs = c.comparators[0]
                if op in ("In", "NotIn"):
                    conds.append((op, _term(S, rhs, at, depth + 1)))
                else:
                    conds.append((op, ast.unparse(rhs)))
            else:
                conds.append(("?", ast.unparse(c)))
        return ("filter", _term(S, g.iter, at, depth + 1), tuple(conds))
    if isinstance(e, ast.BinOp) and isinstance(e.op, ast.Add):
        return ("cat", _term(S, e.left, at, depth + 1), _term(S, e.right, at, depth + 1))
    if isinstance(e, ast.Call) and isinstance(e.func, ast.Name) and e.func.id in ("tuple", "list") and len(e.args) == 1:
        return _term(S, e.args[0], at, depth + 1)
    if isinstance(e, ast.Call) and isinstance(e.func, ast.Name) and e.args:
        return ("call", e.func.id, tuple(_term(S, a, at, depth + 1) for a in e.args))
    if selfn and is_attr_of(e, selfn, "_var_declaration_info"):
        return ("D",)
    if isinstance(e, ast.Name):
        defs = S.rd.defs_reaching_at(at, e.id) if at is not None else S.rd.defs_reaching(e)
        if len(defs) == 1:
            d = defs[0]
            if isinstance(d, ast.Assign) and len(d.targets) == 1 and isinstance(d.targets[0], ast.Name):
                t = _term(S, d.value, d, depth + 1)
                # in-place growth between the definition and this use: `x.extend(E)` / `x.append(v)` statements
                use = at if at is not None else _stmt(e)
                for g in _inplace_growth(S, e.id, d):
                    if g is use or use is None:
                        continue
                    if S.cfg.dominates(g, use) and not S.cfg.reachable_after(use, g):
                        c = g.value
                        if c.func.attr == "extend" and len(c.args) == 1:
                            t = ("cat", t, _term(S, c.args[0], g, depth + 1))
                        else:
                            t = ("cat", t, ("?", ast.unparse(c)))
                    elif S.cfg.reachable_after(g, use):
                        t = ("cat", t, ("?", "conditional " + ast.unparse(g.value)))
                return t
            if isinstance(d, ast.AugAssign) and isinstance(d.op, ast.Add):
                return ("cat", _term(S, ast.Name(id=e.id, ctx=ast.Load()), d, depth + 1), _term(S, d.value, d, depth + 1))
        return ("name", e.id)
    return ("?", ast.unparse(e))


def _inplace_growth(S: Scope, name: str, d) -> list:
    """`name.extend(..)` / `name.append(..)` / `name.insert(..)` expression statements for which `d` is the only reaching
    definition of `name`, in source order of the (possibly synthesised) body."""
    out = []
    for st in walk_shallow(S.f.node):
        if isinstance(st, ast.Expr) and isinstance(st.value, ast.Call) and isinstance(st.value.func, ast.Attribute) \
                and st.value.func.attr in ("extend", "append", "insert") and isinstance(st.value.func.value, ast.Name) \
                and st.value.func.value.id == name:
            ds = S.rd.defs_reaching_at(st, name)
            if len(ds) == 1 and ds[0] is d:
                out.append(st)
    # order by dominance (a statement that dominates another comes first)
    out.sort(key=lambda x: sum(1 for y in out if y is not x and S.cfg.dominates(y, x)))
    return out


def _subst(t, old, new):
    if t == old:
        return new
    if isinstance(t, tuple):
        return tuple(_subst(x, old, new) for x in t)
    return t


def _rank_sort_term(S: Scope, e: ast.AST, at):
    """`sorted(X, key=lambda v: RANK.get(v, len(RANK)))` with RANK = {n: i for i, n in enumerate(D)}: a stable sort by declaration
    rank = declared names in D order first, then the rest in incoming order.  Returns the same normal form as the two-filter
    spelling, ('sortbug', why) for a rank key that is recognisably wrong, or None when `e` is not such a sort."""
    if not (isinstance(e, ast.Call) and isinstance(e.func, ast.Name) and e.func.id == "sorted" and len(e.args) == 1):
        return None
    kws = {k.arg: k.value for k in e.keywords}
    if set(kws) - {"key", "reverse"} or "key" not in kws:
        return None
    key = S.single_value(kws["key"])
    if not (isinstance(key, ast.Lambda) and len(key.args.args) == 1):
        return None
    v = key.args.args[0].arg
    body = key.body

    def rank_table(x):
        """x is a dict name -> position in D: ('D',)-term of the enumerated sequence"""
        x = S.single_value(x) if isinstance(x, ast.Name) else x
        if isinstance(x, ast.DictComp) and len(x.generators) == 1 and not x.generators[0].ifs:
            g = x.generators[0]
            it = g.iter
            if isinstance(it, ast.Call) and isinstance(it.func, ast.Name) and it.func.id == "enumerate" and len(it.args) == 1 \
                    and not it.keywords and isinstance(g.target, ast.Tuple) and len(g.target.elts) == 2 \
                    and all(isinstance(t, ast.Name) for t in g.target.elts) and isinstance(x.key, ast.Name) and isinstance(x.value, ast.Name) \
                    and x.key.id == g.target.elts[1].id and x.value.id == g.target.elts[0].id:
                return _term(S, it.args[0], at)
        return None

    def is_len_of(x, tab):
        return isinstance(x, ast.Call) and isinstance(x.func, ast.Name) and x.func.id == "len" and len(x.args) == 1 \
            and ast.dump(x.args[0]) == ast.dump(tab)
    tab = dflt = None
    bug = None
    if isinstance(body, ast.Call) and isinstance(body.func, ast.Attribute) and body.func.attr == "get" and body.args \
            and isinstance(body.args[0], ast.Name) and body.args[0].id == v:
        tab = body.func.value
        dflt = body.args[1] if len(body.args) > 1 else None
        if dflt is None:
            bug = "undeclared names get the rank None"
    elif isinstance(body, ast.BoolOp) and isinstance(body.op, ast.Or) and len(body.values) == 2 and isinstance(body.values[0], ast.Call) \
            and isinstance(body.values[0].func, ast.Attribute) and body.values[0].func.attr == "get" and body.values[0].args \
            and isinstance(body.values[0].args[0], ast.Name) and body.values[0].args[0].id == v:
        tab = body.values[0].func.value
        dflt = body.values[1]
        bug = "`rank.get(name) or default` treats declaration rank 0 like a missing name: the first declared parameter is sorted last"
    elif isinstance(body, ast.IfExp) and isinstance(body.test, ast.Compare) and len(body.test.ops) == 1 \
            and isinstance(body.test.ops[0], (ast.In, ast.NotIn)) and isinstance(body.test.left, ast.Name) and body.test.left.id == v:
        tab = body.test.comparators[0]
        hit, miss = (body.body, body.orelse) if isinstance(body.test.ops[0], ast.In) else (body.orelse, body.body)
        if not (isinstance(hit, ast.Subscript) and ast.dump(hit.value) == ast.dump(tab) and isinstance(hit.slice, ast.Name) and hit.slice.id == v):
            return None
        dflt = miss
    if tab is None:
        return None
    D = rank_table(tab)
    if D is None:
        return None
    if kws.get("reverse") is not None and not (isinstance(kws["reverse"], ast.Constant) and kws["reverse"].value is False):
        return ("sortbug", "sorted in reverse")
    if bug is None and not is_len_of(dflt, tab):
        dv = S.single_value(dflt)
        if isinstance(dv, ast.UnaryOp) and isinstance(dv.op, ast.USub) and isinstance(dv.operand, ast.Constant) \
                and isinstance(dv.operand.value, (int, float)):
            dv = ast.Constant(value=-dv.operand.value)
        if isinstance(dv, ast.Constant) and isinstance(dv.value, (int, float)) and dv.value <= 0:
            bug = f"undeclared names get rank {dv.value} and are sorted to the front"
        elif not is_len_of(dv, tab):
            return None
    if bug:
        return ("sortbug", bug)
    X = _term(S, e.args[0], at)
    first = ("filter", D, (("In", X),))
    return ("cat", first, ("filter", X, (("NotIn", first),)))


def _cat_parts(t) -> list:
    if isinstance(t, tuple) and t and t[0] == "cat":
        return _cat_parts(t[1]) + _cat_parts(t[2])
    return [t]


def _helper_calls(ctx, f):
    """(call, callee) for every `self.m(...)` in f that resolves to a method of the backend class hierarchy"""
    out = []
    for c in walk_shallow(f.node):
        if isinstance(c, ast.Call) and isinstance(c.func, ast.Attribute) and is_attr_of(c.func, f.self_name or ""):
            g = ctx.repo.lookup_method(_cls(ctx), c.func.attr)
            if g is not None and g is not f:
                out.append((c, g))
    return out


def _reorder_term(ctx, rid, f):
    """The declared-first reordering of function f as a term over D (=_var_declaration_info) and X (the incoming name list).
    The reordering may be spelled as an assignment, an augmented assignment or a returned expression, in f itself or in a
    private helper method that f calls (then `call` is the call site in f).
    -> (S, stmt, name or None, term, X, host function, call site or None)"""
    cands = []
    hosts = [(f, None)] + [(g, c) for c, g in _helper_calls(ctx, f)]
    seen = set()
    for g, call in hosts:
        if g in seen:
            continue
        seen.add(g)
        S = Scope(ctx, g)
        for st in walk_shallow(g.node):
            t = None
            srt = _rank_sort_term(S, st.value, st) if isinstance(st, (ast.Assign, ast.Return)) and st.value is not None else None
            if srt is not None and (isinstance(st, ast.Return) or (len(st.targets) == 1 and isinstance(st.targets[0], ast.Name))):
                if srt[0] == "sortbug":
                    cands.append((S, st, ("cat", ("filter", ("?", srt[1]), ()), ("filter", ("D",), ())), g, call))
                    continue
                t = srt
            elif isinstance(st, ast.Assign) and len(st.targets) == 1 and isinstance(st.targets[0], ast.Name) \
                    and isinstance(strip_wrappers(st.value), ast.BinOp):
                t = _term(S, st.value, st)
            elif isinstance(st, ast.AugAssign) and isinstance(st.target, ast.Name) and isinstance(st.op, ast.Add):
                t = ("cat", _term(S, ast.Name(id=st.target.id, ctx=ast.Load()), st), _term(S, st.value, st))
            elif isinstance(st, ast.Return) and st.value is not None and isinstance(strip_wrappers(st.value), ast.BinOp):
                t = _term(S, st.value, st)
            elif isinstance(st, ast.Expr) and isinstance(st.value, ast.Call) and isinstance(st.value.func, ast.Attribute) \
                    and st.value.func.attr == "extend" and isinstance(st.value.func.value, ast.Name) and len(st.value.args) == 1:
                t = ("cat", _term(S, ast.Name(id=st.value.func.value.id, ctx=ast.Load()), st), _term(S, st.value.args[0], st))
            if not t or t[0] != "cat":
                continue
            parts = _cat_parts(t)
            # leading non-filter parts (e.g. the pinned `[return_var]`, the leading `['t', y]`) are not part of the reordering
            while parts and not (isinstance(parts[0], tuple) and parts[0][0] == "filter"):
                parts = parts[1:]
            if len(parts) == 2 and all(isinstance(p, tuple) and p[0] == "filter" for p in parts) and ("D",) in _flatten(parts[0]) + _flatten(parts[1]):
                cands.append((S, st, ("cat", parts[0], parts[1]), g, call))
    if not cands:
        raise AnalysisError(f"{rid}: {f.qual}: expected one declaration-order reordering (two filters concatenated, one over "
                            f"_var_declaration_info), found 0")
    if len({repr(c[2]) for c in cands}) != 1 or len({c[3] for c in cands}) != 1:
        raise AnalysisError(f"{rid}: {f.qual}: found {len(cands)} different declaration-order reorderings (unrecognised form)")
    # prefer the first statement that builds it (the others only repeat / extend it)
    S, st, t, g, call = sorted(cands, key=lambda c: c[1].lineno)[0]
    srcs = [p[1] for p in t[1:] if ("D",) not in _flatten(p[1])]
    if len(srcs) != 1:
        raise AnalysisError(f"{rid}: {g.qual}: cannot identify the incoming name list of `{norm(st)}`")
    X = srcs[0]
    name = st.targets[0].id if isinstance(st, ast.Assign) else (st.target.id if isinstance(st, ast.AugAssign) else (
        st.value.func.value.id if isinstance(st, ast.Expr) else None))
    return S, st, name, _subst(t, X, ("X",)), X, g, call


def _flows_to(S: Scope, f, start_stmt, seeds_names: Set[str], seed_nodes: List[ast.AST], goal: str) -> Optional[ast.stmt]:
    """Forward def-use closure inside f: does a value built from the seeds (names assigned at/after `start_stmt`, or the seed
    expression nodes) reach an assignment of `goal`?  -> that assignment (or start_stmt itself when it assigns goal)."""
    tainted = set(seeds_names)
    if start_stmt is not None and goal in tainted:
        return start_stmt
    changed = True
    hit = None
    while changed and hit is None:
        changed = False
        for st in walk_shallow(f.node):
            if not isinstance(st, (ast.Assign, ast.AugAssign)):
                continue
            tg = [x.id for t in (st.targets if isinstance(st, ast.Assign) else [st.target]) for x in ast.walk(t) if isinstance(x, ast.Name)]
            uses = any((isinstance(x, ast.Name) and isinstance(x.ctx, ast.Load) and x.id in tainted) or any(x is sn for sn in seed_nodes)
                       for x in ast.walk(st.value))
            if not uses:
                continue
            if goal in tg:
                hit = st
                break
            new = set(tg) - tainted
            if new:
                tainted |= new
                changed = True
    return hit


def _flatten(t):
    out = []
    if isinstance(t, tuple):
        out.append(t)
        for x in t:
            out += _flatten(x)
    return out


def r2_same_reordering(ctx, rid):
    head = _m(ctx, "generate_func_head")
    gen = _m(ctx, "_generate_auto_files")
    Sh, sth, nh, th, Xh, hosth, callh = _reorder_term(ctx, rid, head)
    Sg, stg, ng, tg, Xg, hostg, callg = _reorder_term(ctx, rid, gen)
    ref = ("cat", ("filter", ("D",), (("In", ("X",)),)), ("filter", ("X",), (("NotIn", ("filter", ("D",), (("In", ("X",)),))),)))
    facts = {"generate_func_head": repr(th), "_generate_auto_files": repr(tg), "reference": repr(ref)}
    for f, st, t, other, host in ((head, sth, th, "_generate_auto_files", hosth), (gen, stg, tg, "generate_func_head", hostg)):
        at = st if host is f else (callh if f is head else callg)
        if t == ref:
            ctx.ok(rid, f, at, "declared names first in _var_declaration_info order, then the undeclared rest in incoming order"
                               + ("" if host is f else f" (in its helper {host.qualname})"), facts,
                   label="declaration-order reordering")
        else:
            ctx.violation(rid, f, at, f"the parameter reordering of {f.qualname} is not `declared names in _var_declaration_info order + the "
                                      f"rest` (normal form {t!r}): the i-th forwarded PAR slot no longer meets the i-th parameter of the "
                                      f"subroutine signature / the slot table ({other} uses the other order)", facts,
                          label="declaration-order reordering")
    # the reordered list is what each function goes on with
    # head: the names list that is returned; gen: the sequence handed to _auto_param_indices
    rets = [r for r in walk_shallow(head.node) if isinstance(r, ast.Return) and isinstance(r.value, ast.Name)]
    ctx.require(len(rets) == 1, f"{rid}: generate_func_head no longer returns one name list")
    outname = rets[0].value.id

    def helper_returns_reordering(host, st):
        """inside the helper the reordering statement is, or flows into, a returned value"""
        if isinstance(st, ast.Return):
            return True
        nm = st.targets[0].id if isinstance(st, ast.Assign) else st.target.id
        tainted = {nm}
        changed = True
        while changed:
            changed = False
            for s2 in walk_shallow(host.node):
                if isinstance(s2, (ast.Assign, ast.AugAssign)) and any(isinstance(x, ast.Name) and x.id in tainted for x in ast.walk(s2.value)):
                    new = {x.id for t in (s2.targets if isinstance(s2, ast.Assign) else [s2.target]) for x in ast.walk(t)
                           if isinstance(x, ast.Name)} - tainted
                    if new:
                        tainted |= new
                        changed = True
        return any(isinstance(r, ast.Return) and r.value is not None and any(isinstance(x, ast.Name) and x.id in tainted for x in ast.walk(r.value))
                   for r in walk_shallow(host.node))
    if hosth is head:
        hit = _flows_to(Sh, head, sth, {nh}, [], outname)
    else:
        hit = _flows_to(Sh, head, None, set(), [callh], outname) if helper_returns_reordering(hosth, sth) else None
    if hit is not None:
        ctx.ok(rid, head, hit, f"the reordered list becomes the returned/declared argument list `{outname}`",
               label="reordered list is used", nontrivial=False)
    else:
        ctx.violation(rid, head, sth if hosth is head else callh, f"the reordered list never reaches the subroutine signature `{outname}`",
                      label="reordered list is used")
    calls = [c for c in walk_shallow(gen.node) if isinstance(c, ast.Call) and is_attr_of(c.func, gen.self_name, "_auto_param_indices")]
    seq = calls[0].args[0].id if calls and calls[0].args and isinstance(calls[0].args[0], ast.Name) else None
    ctx.require(seq is not None, f"{rid}: the sequence handed to _auto_param_indices is not a plain name (unrecognised form)")
    Sgen = Scope(ctx, gen)
    if hostg is gen:
        hit = _flows_to(Sgen, gen, stg, {ng}, [], seq)
        anchor = stg
    else:
        hit = _flows_to(Sgen, gen, None, set(), [callg], seq) if helper_returns_reordering(hostg, stg) else None
        anchor = _stmt(callg)
    if hit is not None:
        before = Sgen.cfg.reachable_after(hit, _stmt(calls[0])) and not Sgen.cfg.reachable_after(_stmt(calls[0]), hit)
        if before:
            ctx.ok(rid, gen, hit, f"the reordered list becomes `{seq}` before the slots are computed and tabulated",
                   label="reordered list is used", nontrivial=False)
        else:
            ctx.violation(rid, gen, hit, "the reordering happens after the slot list was computed", label="reordered list is used")
    else:
        ctx.violation(rid, gen, anchor, f"the reordered list never becomes the sequence `{seq}` the slots are computed for",
                      label="reordered list is used")
    # both X are the parameter-name list: head filters out the return variable only
    if hostg is gen:
        ok_x = Xg == ("name", seq)
    else:
        a = _call_args(callg, [p for p in hostg.params if p != hostg.self_name])
        recv = [k for k, v in a.items() if isinstance(v, ast.Name) and v.id == seq]
        ok_x = len(recv) == 1 and Xg == ("name", recv[0])
    if not ok_x:
        raise AnalysisError(f"{rid}: incoming list of the reordering in _generate_auto_files is {Xg!r}, expected the func_args parameter")


# =================================================================================================
# R3: states
# =================================================================================================

def _seq_or_image(S: Scope, src: ast.AST, seqname: str, depth=0) -> bool:
    """`src` is the parameter `seqname` itself or an element-wise image of it (`[g(v) for v in seqname]`, tuple/list copies):
    same length and order, so enumerate positions are the positions in `seqname`."""
    while isinstance(src, ast.Call) and isinstance(src.func, ast.Name) and src.func.id in ("tuple", "list") and len(src.args) == 1:
        src = src.args[0]
    if not isinstance(src, ast.Name) or depth > 3:
        return False
    bs = S.binds(src)
    if src.id == seqname and bs and all(b.kind == "param" for b in bs):
        return True
    if len(bs) != 1 or bs[0].kind != "value" or bs[0].path or bs[0].expr is None:
        return False
    v = bs[0].expr
    while isinstance(v, ast.Call) and isinstance(v.func, ast.Name) and v.func.id in ("tuple", "list") and len(v.args) == 1:
        v = v.args[0]
    if isinstance(v, (ast.ListComp, ast.GeneratorExp)) and len(v.generators) == 1 and not v.generators[0].ifs:
        return _seq_or_image(S, v.generators[0].iter, seqname, depth + 1)
    if isinstance(v, ast.Call) and isinstance(v.func, ast.Name) and v.func.id == "map" and len(v.args) == 2:
        return _seq_or_image(S, v.args[1], seqname, depth + 1)
    if isinstance(v, ast.Name):
        return _seq_or_image(S, v, seqname, depth + 1)
    return False


def _enum_start(call: ast.Call) -> Optional[int]:
    start = 0
    if len(call.args) > 1:
        if not (isinstance(call.args[1], ast.Constant) and isinstance(call.args[1].value, int)):
            return None
        start = call.args[1].value
    for kw in call.keywords:
        if kw.arg == "start":
            if not (isinstance(kw.value, ast.Constant) and isinstance(kw.value.value, int)):
                return None
            start = kw.value.value
    return start


def _enum_position(S: Scope, e: ast.AST, seqname: str):
    """If e == (enumerate position of `seqname`) + c : return (c + start, binder); else None."""
    k, off = split_offset(e)
    c = 0
    if off is not None:
        if not (isinstance(off, ast.Constant) and isinstance(off.value, int)):
            return None
        c = off.value
    if not isinstance(k, ast.Name):
        return None
    bs = S.binds(k)
    if len(bs) != 1 or bs[0].kind != "iter":
        return None
    role, base, rest = element_origin(bs[0].expr, bs[0].path)
    if role != "index" or rest:
        return None
    src = base.args[0]
    start = 0
    if len(base.args) > 1:
        if not isinstance(base.args[1], ast.Constant):
            return None
        start = base.args[1].value
    for kw in base.keywords:
        if kw.arg == "start" and isinstance(kw.value, ast.Constant):
            start = kw.value.value
    if not _seq_or_image(S, src, seqname):
        return ("other", ast.unparse(src), bs[0].node)
    return (c + start, bs[0].node)


def _index_is_foreign(S: Scope, e: ast.AST, depth=0) -> Optional[str]:
    """A positive reason why index expression `e` is not an enumerate position (literal, slot, plain loop element, counter);
    None when its provenance is not understood at all."""
    k, off = split_offset(e)
    if isinstance(k, ast.Constant):
        return "a literal"
    if isinstance(k, ast.BinOp):
        return "an arithmetic expression"
    if isinstance(k, ast.Call):
        return "a call result"
    if isinstance(k, ast.Subscript):
        return "a table lookup"
    if isinstance(k, ast.Name) and depth < 4:
        bs = S.binds(k)
        for b in bs:
            if b.kind in ("iter", "aug", "param"):
                return f"bound by `{norm(b.node) if not isinstance(b.node, ast.arguments) else 'parameter'}`"
            if b.kind == "value" and b.expr is not None:
                return _index_is_foreign(S, b.expr, depth + 1) or None
    return None


def r3_states(ctx, rid):
    gen = _m(ctx, "_generate_auto_files")
    S = Scope(ctx, gen)
    selfn = gen.self_name
    ctx.require("state_vars" in gen.params, f"{rid}: parameter state_vars of _generate_auto_files vanished")
    sinks = []
    # the state list may be handed on unchanged to extracted emitters (private methods): they are searched as well, with the
    # receiving parameter as the state list
    scopes = [(gen, S, "state_vars")]
    seen_callees = {gen}
    work = [(gen, S, "state_vars")]
    while work:
        fc, Sc_, seqn = work.pop()
        for c in walk_shallow(fc.node):
            if not (isinstance(c, ast.Call) and isinstance(c.func, ast.Attribute) and is_attr_of(c.func, fc.self_name or "")):
                continue
            passed = [x for x in list(c.args) + [k.value for k in c.keywords] if isinstance(x, ast.Name) and x.id == seqn
                      and all(b.kind == "param" for b in Sc_.binds(x))]
            if not passed:
                continue
            callee = ctx.repo.lookup_method(_cls(ctx), c.func.attr)
            if callee is None or callee in seen_callees:
                continue
            a = _call_args(c, [p for p in callee.params if p != callee.self_name])
            recv = [k for k, v in a.items() if v is passed[0]]
            if len(recv) != 1 or recv[0] not in callee.params:
                continue
            seen_callees.add(callee)
            item = (callee, Scope(ctx, callee), recv[0])
            scopes.append(item)
            work.append(item)
    for fc, Sc_, seqn in scopes:
        for node, text, holes in templates_in(fc.node):
            m = re.match(r"^\s*y\(⟨(\d+)⟩\)\s*=\s*(.*)$", text or "")
            if m:
                sinks.append((f"stpnt `{text}`".replace("⟨", "{").replace("⟩", "}"), holes[int(m.group(1))],
                              [holes[int(k)] for k in re.findall(r"⟨(\d+)⟩", m.group(2))], _stmt(node), fc, Sc_, seqn))

    def kwval(cname, kw):
        for c in walk_shallow(gen.node):
            if isinstance(c, ast.Call) and is_attr_of(c.func, selfn, cname):
                for k in c.keywords:
                    if k.arg == kw:
                        return c, k.value
        raise AnalysisError(f"{rid}: keyword {kw}= of {cname} not found")
    c, v = kwval("_build_auto_constants_file", "unames")
    e = S.single_value(v)
    if isinstance(e, ast.Call) and call_name(e) == "pop" and len(e.args) == 2:
        e = S.single_value(e.args[1])
    if isinstance(e, ast.Call) and call_name(e) == "dict" and len(e.args) == 1 and not e.keywords and isinstance(e.args[0], ast.Call) \
            and isinstance(e.args[0].func, ast.Name) and e.args[0].func.id == "enumerate" and e.args[0].args:
        # dict(enumerate(names, start=1)): key = position, value = the element at that position
        en = e.args[0]
        start = _enum_start(en)
        label = "state index: unames key"
        if start is None:
            raise AnalysisError(f"{rid}: `{ast.unparse(e)}`: start of the enumeration is not a literal")
        if not _seq_or_image(S, en.args[0], "state_vars"):
            src0 = en.args[0]
            known = isinstance(src0, ast.Call) and isinstance(src0.func, ast.Name) and src0.func.id in ("sorted", "reversed", "set")
            if not known and not (isinstance(src0, ast.Name) and S.binds(src0)):
                raise AnalysisError(f"{rid}: unames enumerates `{ast.unparse(src0)}` (unrecognised form)")
            ctx.violation(rid, gen, _stmt(e), f"unames key: positions are taken in `{ast.unparse(src0)}`, not in `state_vars`: "
                                              f"NDIM/unames/stpnt would describe different state orderings", label=label)
        elif start != 1:
            ctx.violation(rid, gen, _stmt(e), f"unames key: positions start at {start}, Fortran/auto-07p U(k) starts at 1", label=label)
        else:
            ctx.ok(rid, gen, _stmt(e), "unames key: 1 + enumerate position of `state_vars`, paired with that variable", label=label)
    else:
        ctx.require(isinstance(e, ast.DictComp), f"{rid}: unames is not a dict comprehension (unrecognised form)")
        sinks.append(("unames key", e.key, [e.value], _stmt(e), gen, S, "state_vars"))
    c, v = kwval("_compose_bvp_body", "state_indices")
    e = S.single_value(v)
    ctx.require(isinstance(e, ast.DictComp), f"{rid}: state_indices is not a dict comprehension (unrecognised form)")
    sinks.append(("state_indices value", e.value, [e.key], _stmt(e), gen, S, "state_vars"))
    ctx.require(len(sinks) >= 2, f"{rid}: expected stpnt y(k), unames and state_indices sinks, found {len(sinks)}")
    for what, idx, vals, st, fc, Sc_, seqn in sinks:
        r = _enum_position(Sc_, idx, seqn)
        label = f"state index: {what}"
        if r is None:
            if _index_is_foreign(Sc_, idx) is None:
                raise AnalysisError(f"{rid}: {fc.qual}: {what}: cannot determine where the index `{ast.unparse(idx)}` comes from "
                                    f"(unrecognised form)")
        if r is None or r[0] == "other":
            ctx.violation(rid, fc, st, f"{what}: index `{ast.unparse(idx)}` is not the enumerate position of `state_vars`"
                                       f"{' (it enumerates `' + r[1] + '`)' if r else ''}: NDIM/unames/stpnt would describe different "
                                       f"state orderings", label=label)
        elif r[0] != 1:
            ctx.violation(rid, fc, st, f"{what}: index `{ast.unparse(idx)}` starts at {r[0]}, Fortran/auto-07p U(k) starts at 1", label=label)
        elif not all(_mentions_bound_by(Sc_, v, r[1], {split_offset(idx)[0].id}) for v in vals):
            ctx.violation(rid, fc, st, f"{what}: the name/value stored with the index is not the state variable of the same position", label=label)
        else:
            ctx.ok(rid, fc, st, f"{what}: 1 + enumerate position of `state_vars`, paired with that variable", label=label)
    # NDIM
    c, v = kwval("_build_auto_constants_file", "ndim")
    v0 = S.single_value(v)
    a0 = S.single_value(v0.args[0]) if isinstance(v0, ast.Call) and call_name(v0) == "len" and len(v0.args) == 1 else None
    while isinstance(a0, ast.Call) and isinstance(a0.func, ast.Name) and a0.func.id in ("list", "tuple") and len(a0.args) == 1:
        a0 = S.single_value(a0.args[0])
    good = isinstance(a0, ast.Name) and a0.id == "state_vars" and all(b.kind == "param" for b in S.binds(a0))
    if not good and not (isinstance(v0, (ast.Constant, ast.BinOp)) or (isinstance(v0, ast.Call) and call_name(v0) == "len")):
        raise AnalysisError(f"{rid}: ndim=`{ast.unparse(v)}` handed to _build_auto_constants_file has an unrecognised form")
    if good:
        ctx.ok(rid, gen, _stmt(v), "NDIM = len(state_vars)", label="ndim= of _build_auto_constants_file")
    else:
        ctx.violation(rid, gen, _stmt(v), f"NDIM is `{ast.unparse(v)}`, not the length of the `state_vars` list that stpnt/unames enumerate",
                      label="ndim= of _build_auto_constants_file")
    # constants file: NDIM / NPAR stored from the arguments, after the defaults.  The writes into the constants dict are read
    # as one ordered sequence of (key, value) / (spread, source) items, whatever the spelling (dict(..) + update + item
    # assignment, or one dict display with ** unpacking, or update(K=v)).
    b = _m(ctx, "_build_auto_constants_file")

    def dict_items(e, st) -> Optional[list]:
        """items contributed by a dict-valued expression: [('key', K, value, st) | ('spread', source, st)]"""
        if isinstance(e, ast.Dict):
            out = []
            for k, v in zip(e.keys, e.values):
                if k is None:
                    out.append(("spread", v, st))
                elif isinstance(k, ast.Constant):
                    out.append(("key", k.value, v, st))
                else:
                    return None
            return out
        if isinstance(e, ast.Call) and isinstance(e.func, ast.Name) and e.func.id == "dict":
            out = [("spread", a, st) for a in e.args]
            for k in e.keywords:
                out.append(("spread", k.value, st) if k.arg is None else ("key", k.arg, k.value, st))
            return out
        if isinstance(e, ast.Call) and isinstance(e.func, ast.Attribute) and e.func.attr == "copy" and not e.args:
            return [("spread", e.func.value, st)]
        return None
    roots = {}
    for st in walk_shallow(b.node):
        if isinstance(st, ast.Assign) and len(st.targets) == 1 and isinstance(st.targets[0], ast.Subscript) \
                and isinstance(st.targets[0].slice, ast.Constant) and st.targets[0].slice.value in ("NDIM", "NPAR") \
                and isinstance(st.targets[0].value, ast.Name):
            roots[st.targets[0].value.id] = True
        if isinstance(st, (ast.Assign, ast.AnnAssign)) and isinstance(st.value, (ast.Dict, ast.Call)):
            tg = st.targets[0] if isinstance(st, ast.Assign) and len(st.targets) == 1 else getattr(st, "target", None)
            its = dict_items(st.value, st)
            if isinstance(tg, ast.Name) and its and any(i[0] == "key" and i[1] in ("NDIM", "NPAR") for i in its):
                roots[tg.id] = True
        if isinstance(st, ast.Expr) and isinstance(st.value, ast.Call) and call_name(st.value) == "update" \
                and isinstance(st.value.func.value, ast.Name) and any(k.arg in ("NDIM", "NPAR") for k in st.value.keywords):
            roots[st.value.func.value.id] = True
    ctx.require(len(roots) == 1, f"{rid}: _build_auto_constants_file: the dict that receives NDIM and NPAR was not found uniquely ({sorted(roots)})")
    D = next(iter(roots))
    seq = []
    for st in b.node.body:
        if isinstance(st, (ast.Assign, ast.AnnAssign)):
            tgs = st.targets if isinstance(st, ast.Assign) else [st.target]
            if any(isinstance(t, ast.Name) and t.id == D for t in tgs) and st.value is not None:
                its = dict_items(st.value, st)
                if its is None:
                    raise AnalysisError(f"{rid}: {b.qual}: `{norm(st)}` builds the constants dict in an unrecognised way")
                seq = list(its)
                continue
            if any(isinstance(t, ast.Subscript) and isinstance(t.value, ast.Name) and t.value.id == D for t in tgs):
                t = tgs[0]
                if isinstance(t.slice, ast.Constant):
                    seq.append(("key", t.slice.value, st.value, st))
                else:
                    seq.append(("spread", st.value, st))
                continue
        if isinstance(st, ast.Expr) and isinstance(st.value, ast.Call) and call_name(st.value) in ("update", "setdefault") \
                and isinstance(st.value.func, ast.Attribute) and isinstance(st.value.func.value, ast.Name) and st.value.func.value.id == D:
            c = st.value
            if call_name(c) == "update":
                for a in c.args:
                    its = dict_items(a, st) if isinstance(a, (ast.Dict,)) else None
                    seq += its if its is not None else [("spread", a, st)]
                for k in c.keywords:
                    seq.append(("spread", k.value, st) if k.arg is None else ("key", k.arg, k.value, st))
            continue
        # conditional / looped writes of the two keys are not understood
        for x in ast.walk(st):
            if isinstance(x, ast.Subscript) and isinstance(x.ctx, ast.Store) and isinstance(x.value, ast.Name) and x.value.id == D \
                    and isinstance(x.slice, ast.Constant) and x.slice.value in ("NDIM", "NPAR"):
                raise AnalysisError(f"{rid}: {b.qual}: `{norm(st)}` writes NDIM/NPAR conditionally (unrecognised form)")
    for key, pname in (("NDIM", "ndim"), ("NPAR", "npar")):
        idxs = [i for i, it in enumerate(seq) if it[0] == "key" and it[1] == key]
        ctx.require(bool(idxs), f"{rid}: _build_auto_constants_file no longer stores {key} at top level")
        i = idxs[-1]
        _, _, val, st = seq[i]
        val_ok = isinstance(val, ast.Name) and val.id == pname
        later = [it for it in seq[i + 1:] if it[0] == "spread" and not (isinstance(it[1], ast.Name) and it[1].id == "overrides")]
        if val_ok and not later:
            ctx.ok(rid, b, st, f"{key} is the `{pname}` argument, stored after the scenario defaults", label=f"consts[{key}]")
        else:
            ctx.violation(rid, b, st, f"c.* constant {key} is `{ast.unparse(val)}`"
                                      f"{' and is overwritten by ' + norm(later[0][-1]) if later else ''}: it must be the `{pname}` argument "
                                      f"(NDIM = number of states, NPAR = largest slot)", label=f"consts[{key}]")
    # state_vars is the layout order: generate_func forwards it; to_func passes ComputeGraph.state_vars = keys of var_updates['DEs']
    gf = _m(ctx, "generate_func")
    fw = [c for c in walk_shallow(gf.node) if isinstance(c, ast.Call) and is_attr_of(c.func, gf.self_name, "_generate_auto_files")]
    ctx.require(len(fw) == 1, f"{rid}: call of _generate_auto_files in generate_func not recognised")
    Sgf = Scope(ctx, gf)
    kw = _call_args(fw[0], [p for p in gen.params if p != gen.self_name])

    def same_param(e, name):
        e = Sgf.single_value(e) if e is not None else None
        return isinstance(e, ast.Name) and e.id == name and all(b.kind == "param" for b in Sgf.binds(e))
    if any(isinstance(x, ast.Starred) for x in fw[0].args) or "state_vars" not in kw or "func_args" not in kw:
        raise AnalysisError(f"{rid}: `{norm(fw[0])}`: cannot see which state_vars/func_args generate_func hands on (unrecognised form)")
    if same_param(kw.get("state_vars"), "state_vars") and same_param(kw.get("func_args"), "func_args"):
        ctx.ok(rid, gf, fw[0], "generate_func forwards state_vars and func_args unchanged", label="state_vars forwarded", nontrivial=False)
    else:
        ctx.violation(rid, gf, fw[0], "generate_func does not forward its state_vars/func_args unchanged to _generate_auto_files",
                      label="state_vars forwarded")
    tf = ctx.repo.get_func(CG, "ComputeGraph.to_func")
    Stf = Scope(ctx, tf)
    gcs = [c for c in walk_shallow(tf.node) if isinstance(c, ast.Call) and call_name(c) == "generate_func"]
    ctx.require(len(gcs) == 1, f"{rid}: call of generate_func in to_func not recognised")
    kw = _call_args(gcs[0], [p for p in gf.params if p != gf.self_name])
    prop = ctx.repo.get_func(CG, "ComputeGraph.state_vars")
    pr = [r for r in walk_shallow(prop.node) if isinstance(r, ast.Return)]
    src = ast.unparse(pr[0].value) if len(pr) == 1 else ""

    def des_keys(e, depth=0, selfn=None) -> Optional[bool]:
        """True: the keys of self.var_updates['DEs'] in dict order; False: recognisably another order/collection; None: unknown"""
        if e is None or depth > 4:
            return None
        if isinstance(e, ast.Call) and isinstance(e.func, ast.Name) and e.func.id in ("list", "tuple") and len(e.args) == 1:
            return des_keys(e.args[0], depth + 1, selfn)
        if isinstance(e, ast.Call) and isinstance(e.func, ast.Name) and e.func.id in ("sorted", "reversed", "set", "frozenset"):
            return False
        if isinstance(e, ast.Call) and isinstance(e.func, ast.Attribute) and e.func.attr == "keys" and not e.args:
            return des_keys(e.func.value, depth + 1, selfn)
        if isinstance(e, ast.Call) and isinstance(e.func, ast.Attribute) and e.func.attr in ("values", "items"):
            return False
        if isinstance(e, (ast.List, ast.Tuple)) and len(e.elts) == 1 and isinstance(e.elts[0], ast.Starred):
            return des_keys(e.elts[0].value, depth + 1, selfn)
        if isinstance(e, (ast.ListComp, ast.GeneratorExp)) and len(e.generators) == 1 and not e.generators[0].ifs \
                and isinstance(e.elt, ast.Name) and isinstance(e.generators[0].target, ast.Name) and e.elt.id == e.generators[0].target.id:
            return des_keys(e.generators[0].iter, depth + 1, selfn)
        if isinstance(e, ast.Subscript) and isinstance(e.slice, ast.Constant):
            if is_attr_of(e.value, selfn or prop.self_name or "self", "var_updates"):
                return e.slice.value == "DEs"
            return None
        return None
    lo = des_keys(pr[0].value) if len(pr) == 1 else None
    sv = kw.get("state_vars")
    sv = Stf.single_value(sv) if sv is not None else None
    if lo is None or sv is None:
        raise AnalysisError(f"{rid}: cannot decide whether the state list handed to the exporter "
                            f"(`{ast.unparse(sv) if sv is not None else None}`, property returns `{src}`) is the key order of var_updates['DEs']")
    direct = None
    if not is_attr_of(sv, tf.self_name, "state_vars"):
        direct = des_keys(sv, 0, tf.self_name)
        if direct is None:
            raise AnalysisError(f"{rid}: cannot decide whether `{ast.unparse(sv)}` handed to generate_func is the key order of "
                                f"var_updates['DEs']")
    if (is_attr_of(sv, tf.self_name, "state_vars") and lo) or direct:
        ctx.ok(rid, tf, gcs[0], "state_vars handed to the exporter are the keys of var_updates['DEs'], the order of the state layout",
               label="state_vars are the layout order")
    else:
        ctx.violation(rid, tf, gcs[0], f"the state list handed to the exporter (`{ast.unparse(sv)}`, "
                                       f"property returns `{src}`) is not the key order of var_updates['DEs'] used by the state layout",
                      label="state_vars are the layout order")


# =================================================================================================
# R4: the time slot is a reserved slot
# =================================================================================================

def _class_const(ctx, name):
    r = ctx.repo.lookup_attr(_cls(ctx), name)
    if r is None:
        raise AnalysisError(f"C18: class attribute {CLS}.{name} vanished")
    return r[1]


def _blocked_range(ctx) -> Tuple[int, int]:
    v = _class_const(ctx, "_AUTO_BLOCKED_PAR_RANGE")
    if not (isinstance(v, ast.Tuple) and len(v.elts) == 2 and all(isinstance(e, ast.Constant) and isinstance(e.value, int) for e in v.elts)):
        raise AnalysisError("C18: _AUTO_BLOCKED_PAR_RANGE is not a pair of integer literals")
    return v.elts[0].value, v.elts[1].value


def _icp_lists(ctx) -> Dict[str, List[int]]:
    out = {}
    d = _class_const(ctx, "_AUTO_CONSTANTS_DEFAULTS")
    s = _class_const(ctx, "_AUTO_CONSTANTS_SCENARIOS")
    if not isinstance(d, ast.Dict) or not isinstance(s, ast.Dict):
        raise AnalysisError("C18: auto constants tables are no longer dict literals")

    def icp(dct):
        for k, v in zip(dct.keys, dct.values):
            if isinstance(k, ast.Constant) and k.value == "ICP":
                try:
                    return list(ast.literal_eval(v))
                except Exception:
                    raise AnalysisError("C18: ICP entry is not a literal list")
        return None
    out["<defaults>"] = icp(d)
    for k, v in zip(s.keys, s.values):
        if isinstance(k, ast.Constant) and isinstance(v, ast.Dict):
            out[k.value] = icp(v)
    return out


def _joined_literal_prefix(S: Scope, e: ast.AST) -> Optional[str]:
    """`sep.join(L)` where L is a list display (or a local whose one definition is one, grown afterwards by append/extend/+=):
    the text of its leading string literals joined by sep, followed by `sep…` when more elements follow; None otherwise."""
    e = S.single_value(e)
    if not (isinstance(e, ast.Call) and isinstance(e.func, ast.Attribute) and e.func.attr == "join" and len(e.args) == 1):
        return None
    sep = S.single_value(e.func.value)
    if not (isinstance(sep, ast.Constant) and isinstance(sep.value, str)):
        return None
    L = e.args[0]
    grown = False
    if isinstance(L, ast.Name):
        bs = S.binds(L)
        vals = [b for b in bs if b.kind == "value" and not b.path and b.expr is not None]
        if len(vals) != 1 or any(b.kind not in ("value", "aug") for b in bs):
            return None
        grown = len(bs) > 1 or any(isinstance(c, ast.Call) and isinstance(c.func, ast.Attribute) and c.func.attr in ("append", "extend", "insert")
                                   and isinstance(c.func.value, ast.Name) and c.func.value.id == L.id for c in walk_shallow(S.f.node))
        if any(isinstance(c, ast.Call) and isinstance(c.func, ast.Attribute) and c.func.attr == "insert" and isinstance(c.func.value, ast.Name)
               and c.func.value.id == L.id for c in walk_shallow(S.f.node)):
            return None
        L = vals[0].expr
    while isinstance(L, ast.BinOp) and isinstance(L.op, ast.Add):
        L, grown = L.left, True
    while isinstance(L, ast.Call) and isinstance(L.func, ast.Name) and L.func.id in ("list", "tuple") and len(L.args) == 1:
        L = L.args[0]
    if not isinstance(L, (ast.List, ast.Tuple)):
        return None
    lead = []
    for x in L.elts:
        if isinstance(x, ast.Constant) and isinstance(x.value, str):
            lead.append(x.value)
        else:
            grown = True
            break
    if not lead:
        return None
    return sep.value.join(lead) + (sep.value + "…" if grown else "")


def _time_slot(ctx):
    """The forwarding `call <vf>(args(T), y, dy, ...)` line: searched in _generate_auto_files and in every other method of the
    backend class (the emission of the `func` wrapper may live in an extracted helper)."""
    gen = _m(ctx, "_generate_auto_files")
    hits = []
    funcs = [gen] + [f for f in _cls(ctx).methods.values() if f.qualname != gen.qualname and not _spliced_into(ctx, gen, f)]
    for f in funcs:
        Sf = None
        for node, text, holes in templates_in(f.node):
            # `call {name}({', '.join(call_args)})`: splice the literal leading elements of the joined list into the text
            mj = re.match(r"^(\s*call ⟨\d+⟩\()⟨(\d+)⟩(.*)$", text or "")
            if mj:
                Sf = Sf or Scope(ctx, f)
                lead = _joined_literal_prefix(Sf, holes[int(mj.group(2))])
                if lead is not None:
                    text = mj.group(1) + lead + mj.group(3)
            m = re.match(r"^\s*call ⟨\d+⟩\(\s*args\((\d+)\)\s*,\s*y\s*,\s*dy", text or "")
            if m:
                hits.append((f, (node, int(m.group(1)), text)))
            elif text and re.match(r"^\s*call\b", text) and (f is gen or re.search(r"args\(", text)):
                raise AnalysisError(f"C18: forwarding call `{text}` has an unrecognised form (time slot must be a literal args(k) first argument)")
    if len(hits) != 1:
        raise AnalysisError(f"C18: expected one forwarding `call <vf>(args(T), y, dy, ...)` line, found {len(hits)}")
    return hits[0]


def r4_time_slot(ctx, rid):
    tf_, (node, T, text) = _time_slot(ctx)
    gen = _m(ctx, "_generate_auto_files")
    lo, hi = _blocked_range(ctx)
    st = _stmt(node)
    facts = {"time_slot": T, "blocked_range": [lo, hi], "reserved": list(RESERVED)}
    if lo <= T <= hi and T in RESERVED:
        ctx.ok(rid, gen, st, f"the vector field's `t` is PAR({T}), inside _AUTO_BLOCKED_PAR_RANGE={lo, hi} and one of auto-07p's reserved slots",
               facts, label="time slot in blocked range")
    else:
        ctx.violation(rid, gen, st, f"the vector field's `t` is read from PAR({T}), which is not inside the blocked range {lo, hi} / not one "
                                    f"of auto-07p's reserved slots {RESERVED}: a model parameter can be assigned the same slot, or auto-07p's "
                                    f"time is not what the field sees", facts, label="time slot in blocked range")
    icps = _icp_lists(ctx)
    for key in ("<defaults>", "ivp"):
        v = icps.get(key)
        cst = _class_const(ctx, "_AUTO_CONSTANTS_DEFAULTS" if key == "<defaults>" else "_AUTO_CONSTANTS_SCENARIOS")
        if v == [T]:
            ctx.ok(rid, gen, st, f"ICP of {key} is [{T}], the slot the field reads time from", {"ICP": v}, label=f"ICP of {key} is the time slot",
                   construct=f"{FORT}::{CLS}::ICP of {key} is the time slot", loc=f"{FORT}:{cst.lineno}")
        else:
            ctx.violation(rid, gen, st, f"time integration (IPS=-2) continues in ICP={v} for {key}, but the vector field reads time from "
                                        f"PAR({T})", {"ICP": v}, label=f"ICP of {key} is the time slot",
                          construct=f"{FORT}::{CLS}::ICP of {key} is the time slot", loc=f"{FORT}:{cst.lineno}")
    # the blocked range reaches _auto_param_indices
    S = Scope(ctx, gen)
    call = [c for c in walk_shallow(gen.node) if isinstance(c, ast.Call) and is_attr_of(c.func, gen.self_name, "_auto_param_indices")][0]
    pi = _m(ctx, "_auto_param_indices")
    a = _call_args(call, [p for p in pi.params if p != pi.self_name])
    b = a.get([p for p in pi.params if p != pi.self_name][1])
    srcs = []

    def is_range_attr(e):
        return e is not None and is_attr_of(e, gen.self_name, "_AUTO_BLOCKED_PAR_RANGE") or (
            isinstance(e, ast.Attribute) and e.attr == "_AUTO_BLOCKED_PAR_RANGE" and isinstance(e.value, (ast.Name, ast.Call, ast.Attribute))
            and ast.unparse(e.value) in (CLS, f"type({gen.self_name})", f"{gen.self_name}.__class__"))

    def is_none_test(t, name) -> Optional[bool]:
        """`name is None` -> True, `name is not None` -> False, else None"""
        if isinstance(t, ast.Compare) and len(t.ops) == 1 and isinstance(t.left, ast.Name) and t.left.id == name \
                and isinstance(t.comparators[0], ast.Constant) and t.comparators[0].value is None:
            if isinstance(t.ops[0], (ast.Is, ast.Eq)):
                return True
            if isinstance(t.ops[0], (ast.IsNot, ast.NotEq)):
                return False
        return None

    def default_applied(e, pname, depth=0) -> Optional[bool]:
        """`e` evaluates to the caller's range when given and to _AUTO_BLOCKED_PAR_RANGE otherwise: True; another constant: False"""
        if depth > 4 or e is None:
            return None
        if is_range_attr(e):
            return True
        if isinstance(e, ast.BoolOp) and isinstance(e.op, ast.Or) and len(e.values) == 2 and isinstance(e.values[0], ast.Name) \
                and e.values[0].id == pname:
            return default_applied(e.values[1], pname, depth + 1)
        if isinstance(e, ast.IfExp):
            nt = is_none_test(e.test, pname)
            if nt is None and isinstance(e.test, ast.Name) and e.test.id == pname:
                nt = False
            if nt is None:
                return None
            dflt, given = (e.body, e.orelse) if nt else (e.orelse, e.body)
            if isinstance(given, ast.Name) and given.id == pname:
                return default_applied(dflt, pname, depth + 1)
            return None
        if isinstance(e, (ast.Tuple, ast.List, ast.Constant)):
            return False
        if isinstance(e, ast.Attribute):
            return False
        return None
    good: Optional[bool] = None
    if isinstance(b, ast.Name):
        for bd in S.binds(b):
            srcs.append(norm(bd.node) if not isinstance(bd.node, ast.arguments) else f"parameter {b.id}")
        binds = S.binds(b)
        vals = [bd for bd in binds if bd.kind == "value"]
        if not all(bd.kind in ("value", "param") for bd in binds) or not vals:
            good = False if binds and all(bd.kind == "param" for bd in binds) else None
        else:
            res = []
            for bd in vals:
                pname = b.id
                # the name that carries the caller's value: the parameter itself, or the parameter this local was derived from
                r = default_applied(bd.expr, pname)
                if r is None:
                    pn = [x.id for x in ast.walk(bd.expr) if isinstance(x, ast.Name) and x.id in gen.params] if bd.expr is not None else []
                    if len(set(pn)) == 1:
                        r = default_applied(bd.expr, pn[0])
                if r and is_range_attr(bd.expr):
                    # plain `b = RANGE`: must be guarded by `if b is None` (or be unconditional without a parameter definition left)
                    g = parent(bd.node)
                    guarded = isinstance(g, ast.If) and (is_none_test(g.test, b.id) is True and bd.node in g.body
                                                         or is_none_test(g.test, b.id) is False and bd.node in g.orelse
                                                         or isinstance(g.test, ast.UnaryOp) and isinstance(g.test.op, ast.Not)
                                                         and isinstance(g.test.operand, ast.Name) and g.test.operand.id == b.id and bd.node in g.body)
                    if not guarded and any(x.kind == "param" for x in binds):
                        r = None
                res.append(r)
            good = True if all(r is True for r in res) else (False if any(r is False for r in res) else None)
    elif b is not None:
        good = default_applied(b, "")
    if good is None:
        raise AnalysisError(f"{rid}: cannot decide which range `{ast.unparse(b) if b is not None else None}` ({srcs}) makes "
                            f"_auto_param_indices skip (unrecognised form)")
    if good:
        ctx.ok(rid, gen, _stmt(call), "the slot computation skips _AUTO_BLOCKED_PAR_RANGE (unless the caller passes a range)", {"defs": srcs},
               label="blocked range reaches _auto_param_indices")
    else:
        ctx.violation(rid, gen, _stmt(call), f"the range skipped by _auto_param_indices is `{ast.unparse(b) if b is not None else None}` "
                                             f"({srcs}), not _AUTO_BLOCKED_PAR_RANGE", label="blocked range reaches _auto_param_indices")


# =================================================================================================
# R5: bounded evaluation of _auto_param_indices
# =================================================================================================

class _Return(Exception):
    def __init__(self, v):
        self.v = v


def _ev(e, env):
    if isinstance(e, ast.Constant) and isinstance(e.value, int):
        return e.value
    if isinstance(e, ast.Name):
        if e.id not in env:
            raise AnalysisError(f"C18-R5: free name `{e.id}` in _auto_param_indices")
        return env[e.id]
    if isinstance(e, ast.List):
        return [_ev(x, env) for x in e.elts]
    if isinstance(e, ast.Tuple):
        return tuple(_ev(x, env) for x in e.elts)
    if isinstance(e, ast.UnaryOp) and isinstance(e.op, ast.USub):
        return -_ev(e.operand, env)
    if isinstance(e, ast.UnaryOp) and isinstance(e.op, ast.Not):
        return not _ev(e.operand, env)
    if isinstance(e, ast.BinOp):
        a, b = _ev(e.left, env), _ev(e.right, env)
        if isinstance(e.op, ast.Add):
            return a + b
        if isinstance(e.op, ast.Sub):
            return a - b
        if isinstance(e.op, ast.Mult):
            return a * b
        if isinstance(e.op, ast.FloorDiv):
            return a // b
    if isinstance(e, ast.Subscript) and not isinstance(e.slice, ast.Slice):
        return _ev(e.value, env)[_ev(e.slice, env)]
    if isinstance(e, ast.Compare):
        left = _ev(e.left, env)
        for op, c in zip(e.ops, e.comparators):
            r = _ev(c, env)
            t = {ast.Lt: left < r, ast.LtE: left <= r, ast.Gt: left > r, ast.GtE: left >= r, ast.Eq: left == r, ast.NotEq: left != r}.get(type(op))
            if t is None:
                raise AnalysisError(f"C18-R5: unsupported comparison in `{ast.unparse(e)}`")
            if not t:
                return False
            left = r
        return True
    if isinstance(e, ast.BoolOp):
        vals = [_ev(v, env) for v in e.values]
        return all(vals) if isinstance(e.op, ast.And) else any(vals)
    if isinstance(e, ast.Call) and isinstance(e.func, ast.Name) and not e.keywords:
        args = [_ev(a, env) for a in e.args]
        if e.func.id == "enumerate":
            return list(enumerate(*args))
        if e.func.id == "range":
            return list(range(*args))
        if e.func.id == "len":
            return len(args[0])
        if e.func.id in ("list", "tuple"):
            return list(args[0]) if args else []
    raise AnalysisError(f"C18-R5: expression `{ast.unparse(e)}` of _auto_param_indices is outside the interpreted integer fragment")


def _bind(t, v, env):
    if isinstance(t, ast.Name):
        env[t.id] = v
    elif isinstance(t, (ast.Tuple, ast.List)):
        for tt, vv in zip(t.elts, v):
            _bind(tt, vv, env)
    else:
        raise AnalysisError("C18-R5: unsupported assignment target")


def _run(stmts, env, fuel):
    for st in stmts:
        fuel[0] -= 1
        if fuel[0] < 0:
            raise AnalysisError("C18-R5: evaluation of _auto_param_indices does not terminate within the step budget")
        if isinstance(st, ast.Expr) and isinstance(st.value, ast.Constant):
            continue
        if isinstance(st, ast.Assign) and len(st.targets) == 1:
            _bind(st.targets[0], _ev(st.value, env), env)
        elif isinstance(st, ast.AugAssign) and isinstance(st.target, ast.Name):
            cur, v = env[st.target.id], _ev(st.value, env)
            if isinstance(st.op, ast.Add):
                env[st.target.id] = cur + v
            elif isinstance(st.op, ast.Sub):
                env[st.target.id] = cur - v
            elif isinstance(st.op, ast.Mult):
                env[st.target.id] = cur * v
            else:
                raise AnalysisError(f"C18-R5: unsupported `{norm(st)}`")
        elif isinstance(st, ast.For) and not st.orelse:
            for item in _ev(st.iter, env):
                _bind(st.target, item, env)
                _run(st.body, env, fuel)
        elif isinstance(st, ast.If):
            _run(st.body if _ev(st.test, env) else st.orelse, env, fuel)
        elif isinstance(st, ast.Expr) and isinstance(st.value, ast.Call) and isinstance(st.value.func, ast.Attribute) \
                and st.value.func.attr == "append" and isinstance(st.value.func.value, ast.Name) and len(st.value.args) == 1:
            env[st.value.func.value.id].append(_ev(st.value.args[0], env))
        elif isinstance(st, ast.Return):
            raise _Return(_ev(st.value, env))
        elif isinstance(st, ast.Pass):
            pass
        else:
            raise AnalysisError(f"C18-R5: statement `{norm(st)}` of _auto_param_indices is outside the interpreted fragment")


def r5_slot_arithmetic(ctx, rid):
    f = _m(ctx, "_auto_param_indices")
    ps = [p for p in f.params if p != f.self_name]
    ctx.require(len(ps) == 2, f"{rid}: signature of _auto_param_indices changed")
    lo, hi = _blocked_range(ctx)
    _, (node, T, text) = _time_slot(ctx)
    icps = _icp_lists(ctx)
    special = sorted(set(RESERVED) | {T} | {k for v in icps.values() if v for k in v if isinstance(k, int) and k >= min(RESERVED)})
    bad = []
    table = {}
    N = 64
    for n in range(N + 1):
        env = {ps[0]: tuple(f"p{i}" for i in range(n)), ps[1]: (lo, hi)}
        try:
            _run(f.node.body, env, [20000])
            res = None
        except _Return as r:
            res = r.v
        if not isinstance(res, list) or not all(isinstance(x, int) for x in res):
            raise AnalysisError(f"{rid}: _auto_param_indices did not return a list of ints for {n} parameters")
        table[n] = res
        if len(res) != n:
            bad.append(f"{n} parameters get {len(res)} slots")
        elif any(b <= a for a, b in zip(res, res[1:])):
            bad.append(f"{n} parameters: slots {res} are not strictly increasing (two parameters share a slot or the order breaks)")
        elif n and res[0] != 1:
            bad.append(f"{n} parameters: first slot is {res[0]}, PAR is 1-based")
        elif set(res) & set(special):
            bad.append(f"{n} parameters: slot(s) {sorted(set(res) & set(special))} collide with auto-07p's reserved PAR(11..14) / the time "
                       f"slot / a reserved ICP literal: {res}")
    # prefix-stability: the slot of parameter i does not depend on how many parameters follow
    for n in range(1, N + 1):
        if table[n][:n - 1] != table[n - 1] and not bad:
            bad.append(f"slot of a parameter depends on the number of parameters ({table[n - 1]} vs {table[n]})")
    facts = {"blocked": [lo, hi], "avoid": special, "slots_for_12_parameters": table[12], "checked_counts": f"0..{N}"}
    if bad:
        ctx.violation(rid, f, f.node, "PAR slot arithmetic is wrong: " + bad[0], dict(facts, all=bad[:5]), label="slots distinct and unreserved")
    else:
        ctx.ok(rid, f, f.node, f"for 0..{N} parameters the slots are 1-based, strictly increasing, prefix-stable and avoid {special}", facts,
               label="slots distinct and unreserved")
    # the function reads nothing but the length of its first argument (slots cannot depend on names)
    uses = [n for n in walk_shallow(f.node) if isinstance(n, ast.Name) and n.id == ps[0] and isinstance(n.ctx, ast.Load)]
    if all(isinstance(parent(n), ast.Call) and call_name(parent(n)) in ("enumerate", "len", "range") for n in uses):
        ctx.ok(rid, f, f.node, "slots depend only on the position of a parameter in the sequence", label="slots are positional", nontrivial=False)
    else:
        raise AnalysisError(f"{rid}: _auto_param_indices reads its name sequence other than through enumerate/len")



def r_str_membership(ctx, rid):
    """The argument lists handed to generated functions are filtered by membership in collections, never in strings
    (shared lint, see _strmember_lint): a substring test silently drops arguments whose name is a substring of e.g. 'dy'."""
    from ._strmember_lint import membership_in_string
    membership_in_string(ctx, rid)


def _memo_shape(ctx, mro, attr: str):
    """Is `self.<attr>` used as a memo table: every write is `self.attr[K] = V` inside ONE function that first looks the same key
    up (`self.attr[K]`, `K in self.attr`, `.get(K)`), the only other operations being `clear()` / size tests?
    -> (function, the store statement, key expression) or None."""
    stores, other = [], []
    for k in mro:
        for m in k.methods.values():
            for n in ast.walk(m.node):
                if isinstance(n, ast.Attribute) and n.attr == attr and isinstance(n.value, ast.Name) and n.value.id in (m.self_name, "cls", k.name):
                    p_ = parent(n)
                    if isinstance(p_, ast.Subscript) and p_.value is n and isinstance(p_.ctx, ast.Store):
                        stores.append((m, _stmt(p_), p_.slice))
                    elif isinstance(p_, ast.Subscript) and p_.value is n and isinstance(p_.ctx, ast.Del):
                        other.append("del")
                    elif isinstance(p_, ast.Attribute) and isinstance(parent(p_), ast.Call) and parent(p_).func is p_ \
                            and p_.attr not in ("clear", "get", "keys", "values", "items", "copy", "__contains__", "__len__"):
                        other.append(p_.attr)
                    elif isinstance(n.ctx, ast.Store):
                        other.append("rebound")
    if len(stores) != 1 or other:
        return None
    m, st, key = stores[0]
    # a memo is consulted by key in the function that fills it, nowhere else, and never read as a collection (iteration, items(),
    # values(), membership of something else, hand-over): a table other code enumerates or looks into is state, not a memo
    for k in mro:
        for g in k.methods.values():
            for n in ast.walk(g.node):
                if isinstance(n, ast.Attribute) and n.attr == attr and isinstance(n.value, ast.Name) and n.value.id in (g.self_name, "cls", k.name):
                    p_ = parent(n)
                    if g is not m:
                        if isinstance(p_, ast.Attribute) and p_.attr == "clear":
                            continue
                        return None
                    keyed = (isinstance(p_, ast.Subscript) and p_.value is n) or \
                        (isinstance(p_, ast.Compare) and n in p_.comparators and isinstance(p_.ops[0], (ast.In, ast.NotIn))) or \
                        (isinstance(p_, ast.Attribute) and p_.attr in ("get", "clear")) or \
                        (isinstance(p_, ast.Call) and isinstance(p_.func, ast.Name) and p_.func.id == "len")
                    if not keyed:
                        return None
    if not isinstance(st, ast.Assign):
        return None
    ktxt = ast.unparse(key)
    looked_up = False
    for n in walk_shallow(m.node):
        if isinstance(n, ast.Subscript) and isinstance(n.ctx, ast.Load) and isinstance(n.value, ast.Attribute) and n.value.attr == attr \
                and ast.unparse(n.slice) == ktxt:
            looked_up = True
        if isinstance(n, ast.Compare) and len(n.ops) == 1 and isinstance(n.ops[0], (ast.In, ast.NotIn)) and ast.unparse(n.left) == ktxt \
                and isinstance(n.comparators[0], ast.Attribute) and n.comparators[0].attr == attr:
            looked_up = True
        if isinstance(n, ast.Call) and isinstance(n.func, ast.Attribute) and n.func.attr == "get" and isinstance(n.func.value, ast.Attribute) \
                and n.func.value.attr == attr and n.args and ast.unparse(n.args[0]) == ktxt:
            looked_up = True
    return (m, st, key) if looked_up else None


_DICT_TO_KEYS = ("frozenset", "set", "list", "tuple", "sorted")


def _memo_key_gap(ctx, f, store: ast.Assign, key_expr: ast.AST) -> Optional[str]:
    """A positive reason why the memo key misses an input of the stored value: (a) the shared lint persistent_memo_key (a parameter
    / instance attribute the value is computed from does not enter the key); (b) a mapping parameter enters the key only through
    `frozenset(d)` / `set(d)` / `list(d)` / `tuple(d)` / `sorted(d)` / `d.keys()`, which keep the keys of a dict and drop what
    they map to."""
    from ._pitfall_lints import persistent_memo_key
    for g, st, why in persistent_memo_key(ctx, [f]):
        if st is store:
            return why
    S = Scope(ctx, f)
    k = S.single_value(key_expr)
    params = [p for p in f.params if p != f.self_name]

    def is_mapping(p):
        ann = next((a.annotation for a in f.node.args.args + f.node.args.kwonlyargs if a.arg == p), None)
        if ann is not None and re.search(r"\b(dict|Dict|Mapping|OrderedDict)\b", ast.unparse(ann)):
            return True
        for n in ast.walk(f.node):
            if isinstance(n, ast.Attribute) and isinstance(n.value, ast.Name) and n.value.id == p and n.attr in ("items", "values", "get", "update"):
                return True
            if isinstance(n, ast.Subscript) and isinstance(n.value, ast.Name) and n.value.id == p and not isinstance(n.slice, ast.Slice):
                return True
            if isinstance(n, ast.Call) and isinstance(n.func, ast.Attribute) and n.func.attr in ("xreplace", "subs") \
                    and any(isinstance(x, ast.Name) and x.id == p for x in n.args):
                return True
        return False
    full, domain_only = set(), {}
    for n in ast.walk(k):
        if isinstance(n, ast.Name) and n.id in params:
            par = parent(n) if hasattr(n, "_parent") else None
            reduced = None
            if isinstance(par, ast.Call) and isinstance(par.func, ast.Name) and par.func.id in _DICT_TO_KEYS and par.args and par.args[0] is n:
                reduced = f"{par.func.id}({n.id})"
            elif isinstance(par, ast.Attribute) and par.attr == "keys":
                reduced = f"{n.id}.keys()"
            if reduced and is_mapping(n.id):
                domain_only.setdefault(n.id, reduced)
            else:
                full.add(n.id)
    for p_, how in domain_only.items():
        if p_ not in full:
            return (f"its key `{ast.unparse(k)[:70]}` takes the mapping `{p_}` only through `{how}`, which keeps the KEYS of a dict and drops "
                    f"the values they map to, while the stored value is computed from that mapping")
    return None


def r7_export_state_is_per_instance(ctx, rid):
    """Every container of a backend instance that the auto-07p export reads slots, declaration order, STPNT values or code from must
    be per-instance state.  The exporter's functions (their inlined views) are scanned for `self.<attr>` reads; those attributes
    that some method of the backend class family fills THROUGH the attribute (`self.a[k] = v`, `self.a.append(..)`, ...) are the
    export's state containers.  Each must be bound to a fresh object in an `__init__` of the class's MRO (a class-level default
    that `__init__` re-binds is fine).  A container that exists only as a class-level mutable object is one object for all
    backend instances of the process: what an earlier export registered (first registration wins) leaks into the next one.
    In addition the shared lint `class_level_mutable_state` is armed for the whole backend family (BaseBackend, its subclasses
    and the mixins in their MROs)."""
    from ._pitfall_lints import class_level_mutable_state, MUTATORS, _is_mutable_display
    base = ctx.repo.get_class("pyrates/backend/base/base_backend.py", "BaseBackend")
    fb = _cls(ctx)
    family = []
    for c in [base] + list(ctx.repo.subclasses(base, strict=True)):
        for k in [c] + [b for b in c.mro[1:] if hasattr(b, "methods")]:
            if k not in family:
                family.append(k)
    hits = class_level_mutable_state(ctx, family)
    hit_attr = {}
    for c, st, why in hits:
        nm = st.targets[0].id if isinstance(st, ast.Assign) else st.target.id
        hit_attr[(c.name, nm)] = (c, st, why)
    # ---- the export's state containers
    readers = [_m(ctx, "_generate_auto_files"), _m(ctx, "generate_func_head")]
    names = ["register_vars", "add_var_update", "generate_func", "generate_func_tail", "add_code_line", "generate"]
    names += [nm for nm in fb.methods if nm not in _VIEWED]       # every method the Fortran exporter defines itself
    for nm in dict.fromkeys(names):
        g = ctx.repo.lookup_method(fb, nm)
        if g is not None and g.self_name:
            readers.append(g)
    read = {}
    for f in readers:
        sn = f.self_name
        for n in ast.walk(f.node):
            if isinstance(n, ast.Attribute) and isinstance(n.value, ast.Name) and n.value.id == sn and isinstance(n.ctx, ast.Load):
                read.setdefault(n.attr, f)
    mro = [k for k in fb.mro if hasattr(k, "methods")]
    written, bound_init, bound_other = {}, {}, {}
    for k in mro:
        for m in k.methods.values():
            sn = m.self_name
            if not sn:
                continue
            for n in ast.walk(m.node):
                if isinstance(n, ast.Attribute) and isinstance(n.value, ast.Name) and n.value.id == sn:
                    p_ = parent(n)
                    if isinstance(n.ctx, ast.Store):
                        (bound_init if m.name == "__init__" else bound_other).setdefault(n.attr, (m, n))
                    elif isinstance(p_, ast.Subscript) and p_.value is n and isinstance(p_.ctx, (ast.Store, ast.Del)):
                        written.setdefault(n.attr, (m, n))
                    elif isinstance(p_, ast.Attribute) and p_.attr in MUTATORS and isinstance(parent(p_), ast.Call) and parent(p_).func is p_:
                        written.setdefault(n.attr, (m, n))
    containers = sorted(a for a in read if a in written)
    ctx.require(len(containers) >= 2, f"{rid}: expected the exporter to read instance containers that the backend fills "
                                      f"(declaration table, code lines, ...), found {containers}")
    for a in containers:
        label = f"per-instance container self.{a}"
        m_w, n_w = written[a]
        cls_level = None
        for k in mro:
            v = k.attrs.get(a) if hasattr(k, "attrs") else None
            if v is not None:
                cls_level = (k, v)
                break
        facts = {"read_in": read[a].qualname, "filled_in": m_w.qualname,
                 "bound_in_init": bound_init[a][0].qualname if a in bound_init else None,
                 "class_level": f"{cls_level[0].name}.{a} = {ast.unparse(cls_level[1])[:40]}" if cls_level else None}
        hit = next((h for (cn, nm), h in hit_attr.items() if nm == a and any(k.name == cn for k in mro)), None)
        memo = _memo_shape(ctx, mro, a) if (a not in bound_init and cls_level is not None) else None
        if memo is not None:
            # a class-level memo table: legitimate when its key records everything the memoised value depends on
            mf, store, key_expr = memo
            label_m = f"memo key of self.{a} covers its inputs"
            why = _memo_key_gap(ctx, mf, store, key_expr)
            if why:
                ctx.violation(rid, mf, store, f"`self.{a}` is a class-level memo shared by all exports of the process and {why}: a later "
                                              f"export whose inputs differ there is handed the text memoised for the earlier one "
                                              f"(e.g. `args(k)` / `y(i)` of another slot layout)", facts, label=label_m)
            else:
                ctx.ok(rid, mf, store, f"`self.{a}` is a class-level memo whose key `{ast.unparse(key_expr)[:70]}` is built from every input "
                                       f"the stored value is computed from", facts, label=label_m)
        elif a in bound_init:
            ctx.ok(rid, bound_init[a][0], _stmt(bound_init[a][1]), f"`self.{a}` (read by the exporter in {read[a].qualname}, filled in "
                                                                   f"{m_w.qualname}) is bound per instance in {bound_init[a][0].qualname}", facts,
                   label=label)
        elif hit is not None or (cls_level is not None and _is_mutable_display(cls_level[1]) and a not in bound_other):
            c, st, why = hit if hit is not None else (cls_level[0], _stmt(cls_level[1]), f"`{cls_level[0].name}.{a}` is a class-level "
                                                      f"mutable object that no method re-binds")
            ctx.violation(rid, m_w, _stmt(n_w), f"the exporter reads `self.{a}` (in {read[a].qualname}) but {why}: names, slots, values or "
                                                f"code registered by an earlier export of the same process are still in it (first "
                                                f"registration wins), so the later model is exported with the earlier model's entries",
                          facts, label=label)
        else:
            raise AnalysisError(f"{rid}: cannot see where `self.{a}` (read by the exporter, filled in {m_w.qualname}) becomes per-instance "
                                f"state: not bound in an __init__ of {fb.name}'s MRO (unrecognised form)")
    # ---- the armed lint: any other class-level container used as per-instance state in the backend family
    for (cn, nm), (c, st, why) in sorted(hit_attr.items()):
        if nm in containers and any(k.name == cn for k in mro):
            continue
        ctx.violation(rid, None, st, f"{why}: backend instances of one process share it", label=f"class-level container {cn}.{nm}",
                      construct=f"{c.module.rel if hasattr(c.module, 'rel') else ''}::{cn}::class-level container {nm}",
                      loc=f"{getattr(c.module, 'rel', '?')}:{st.lineno}")


def r8_values_printed_value_preservingly(ctx, rid):
    """Numbers written into the generated auto-07p artefacts must read back as the same binary64 value: the initial parameter values
    `args(k) = <v>` and the starting state `y(i) = <v>` of STPNT, and the constants of the c.* files.  The value hole of every such
    template is followed through the backend's value printer (inlined, or judged by what it returns); accepted spellings are
    str / repr / a plain f-string hole / a format spec with >= 17 significant digits (`.17g`, `.16e`) / an e->d exponent swap; a
    format spec with fewer digits (or `:e` / `:f` / `:g` without a sufficient precision), round(), character stripping / slicing /
    replacing are violations; anything else is not understood."""
    from .c12 import text_value_preservation, templates_spliced
    gen = _m(ctx, "_generate_auto_files")
    S = Scope(ctx, gen)
    n = 0
    for node, text, holes in templates_spliced(S, gen.node):
        m = re.match(r"^\s*(args|y)\(⟨\d+⟩\)\s*=\s*⟨(\d+)⟩", text or "")
        if not m:
            continue
        n += 1
        hole = holes[int(m.group(2))]
        what = "parameter value" if m.group(1) == "args" else "initial state value"
        shown = text.replace("⟨", "{").replace("⟩", "}")
        label = f"STPNT {what} is printed value-preservingly"
        ok, why = text_value_preservation(ctx, S, hole)
        if ok is None:
            raise AnalysisError(f"{rid}: {gen.qual}: `{shown}`: cannot judge how the {what} {why} is printed (unrecognised form)")
        if ok:
            ctx.ok(rid, gen, _stmt(node), f"`{shown}`: the {what} is printed so that it reads back unchanged ({why})", label=label)
        else:
            ctx.violation(rid, gen, _stmt(node), f"`{shown}`: {why}: auto-07p starts the continuation from a rounded {what}, not from "
                                                 f"the model's", label=label)
    ctx.require(n >= 2, f"{rid}: expected the STPNT lines `args(k) = <value>` and `y(i) = <value>`, found {n}")
    # constants files: every number goes through a plain hole
    b = _m(ctx, "_build_auto_constants_file")
    Sb = Scope(ctx, _callee_view(ctx, b))
    bad, seen = None, 0
    for node, text, holes in templates_spliced(Sb, Sb.f.node):
        if not holes or not isinstance(node, ast.JoinedStr) and not isinstance(node, (ast.Call, ast.BinOp)):
            continue
        seen += 1
        ok, why = text_value_preservation(ctx, Sb, node)
        if ok is False and bad is None:
            bad = (node, why)
        elif ok is None:
            raise AnalysisError(f"{rid}: {b.qual}: cannot judge how `{ast.unparse(node)[:60]}` prints its values ({why})")
    ctx.require(seen >= 1, f"{rid}: no formatted line found in _build_auto_constants_file")
    if bad:
        ctx.violation(rid, b, _stmt(bad[0]), f"c.* file: {bad[1]}: auto-07p reads a rounded constant", label="constants printed value-preservingly")
    else:
        ctx.ok(rid, b, b.node, f"the {seen} formatted lines of the c.* file print their values through plain holes",
               label="constants printed value-preservingly")


PARSER = "pyrates/backend/parser.py"


def r9_preregistration_before_every_operator(ctx, rid):
    """PAR slots, parnames and the subroutine signature follow the order in which variables are registered with the backend, and
    that order is the declaration order only because parse_equations registers ALL definitions of an operator (the dict-valued
    entries of its argument table) before it parses an equation of that operator.  The pre-registration loop (the loop over the
    operator's arguments that calls add_var / register_vars) must therefore run before the expression parser for every equation,
    or be skipped only under a condition that implies "no unregistered definition is left" (no argument of the definition type
    remains).  A skip decided by something else - e.g. "some argument already is a compute node", which is true from the start for
    operators with inputs from other operators - lets the first equation register the parameters in first-use order."""
    f = _callee_view(ctx, ctx.repo.get_func(PARSER, "parse_equations"))      # an extracted pre-registration helper is spliced in
    S = Scope(ctx, f)
    loops = []
    for lp in walk_shallow(f.node):
        if isinstance(lp, ast.For) and any(isinstance(c, ast.Call) and call_name(c) == "add_var" for c in ast.walk(lp)) \
                and any(isinstance(c, ast.Call) and call_name(c) == "register_vars" for c in ast.walk(lp)) \
                and not any(isinstance(c, ast.Call) and call_name(c) in ("ExpressionParser", "parse_expr") for c in ast.walk(lp)):
            loops.append(lp)
    ctx.require(len(loops) == 1, f"{rid}: expected one pre-registration loop (add_var + register_vars over the operator's arguments) in "
                                 f"parse_equations, found {len(loops)}")
    lp = loops[0]
    parse_calls = [c for c in walk_shallow(f.node) if isinstance(c, ast.Call) and call_name(c) in ("ExpressionParser", "parse_expr")]
    ctx.require(bool(parse_calls), f"{rid}: the expression parser call of parse_equations was not found")
    pst = _stmt(parse_calls[0])
    label = "declaration-order pre-registration precedes every equation"
    if not S.cfg.dominates(lp, pst) and not any(isinstance(a, ast.If) and contains(a, lp) for a in ancestors(lp)):
        if S.cfg.dominates(pst, lp):
            ctx.violation(rid, f, lp, "the pre-registration loop runs after the equation was parsed: variables are registered in first-use "
                                      "order", label=label)
            return
        raise AnalysisError(f"{rid}: the pre-registration loop does not precede the expression parser on every path (unrecognised form)")
    # the table and the definition type
    it = lp.iter
    cond = None
    if isinstance(it, ast.IfExp):
        empty_else = isinstance(it.orelse, (ast.Tuple, ast.List)) and not it.orelse.elts
        empty_body = isinstance(it.body, (ast.Tuple, ast.List)) and not it.body.elts
        if empty_else:
            cond, it = it.test, it.body
        elif empty_body:
            cond, it = ast.UnaryOp(op=ast.Not(), operand=it.test), it.orelse
        else:
            raise AnalysisError(f"{rid}: iteration `{ast.unparse(lp.iter)}` of the pre-registration loop not recognised")
    guards = [a for a in ancestors(lp) if isinstance(a, ast.If) and a is not f.node and not isinstance(a, (ast.For,))
              and any(contains(b, lp) or b is lp for b in a.body + a.orelse)]
    outer_for = next((a for a in ancestors(lp) if isinstance(a, ast.For)), None)
    guards = [g for g in guards if outer_for is None or contains(outer_for, g)]
    if len(guards) > 1 or (guards and cond is not None):
        raise AnalysisError(f"{rid}: the pre-registration loop is nested in several conditions (unrecognised form)")
    if guards:
        g = guards[0]
        cond = g.test if any(contains(b, lp) or b is lp for b in g.body) else ast.UnaryOp(op=ast.Not(), operand=g.test)
    e = strip_wrappers(it)
    tab = e.func.value if isinstance(e, ast.Call) and isinstance(e.func, ast.Attribute) and e.func.attr in ("items", "keys", "values") else e
    if not isinstance(tab, ast.Name):
        raise AnalysisError(f"{rid}: the pre-registration loop does not iterate over a named argument table (`{ast.unparse(lp.iter)}`)")
    # definition type: the isinstance test that lets an argument through to add_var
    vname = None
    for nm in ast.walk(lp.target):
        if isinstance(nm, ast.Name):
            vname = nm.id           # last name of the target = the value of .items()
    def_types = set()
    addv = [c for c in ast.walk(lp) if isinstance(c, ast.Call) and call_name(c) == "add_var"][0]
    for a in ancestors(addv):
        if a is lp:
            break
        if isinstance(a, ast.If) and any(contains(b, addv) for b in a.body):
            for t in ast.walk(a.test):
                if isinstance(t, ast.Call) and call_name(t) == "isinstance" and len(t.args) == 2 and isinstance(t.args[0], ast.Name) \
                        and t.args[0].id == vname and not (isinstance(parent(t), ast.UnaryOp)):
                    def_types.add(ast.unparse(t.args[1]))
    for b in lp.body:
        if contains(b, addv):
            break
        if isinstance(b, ast.If) and not b.orelse and b.body and isinstance(b.body[-1], ast.Continue) \
                and isinstance(b.test, ast.UnaryOp) and isinstance(b.test.op, ast.Not) and isinstance(b.test.operand, ast.Call) \
                and call_name(b.test.operand) == "isinstance" and isinstance(b.test.operand.args[0], ast.Name) \
                and b.test.operand.args[0].id == vname:
            def_types.add(ast.unparse(b.test.operand.args[1]))
    ctx.require(len(def_types) == 1, f"{rid}: cannot identify the type of a not-yet-registered definition in the pre-registration loop "
                                     f"({sorted(def_types)})")
    def_type = next(iter(def_types))
    facts = {"table": tab.id, "definition_type": def_type, "runs_if": ast.unparse(cond) if cond is not None else "always"}
    if cond is None:
        ctx.ok(rid, f, lp, f"every equation is preceded by the registration of all `{def_type}` definitions of its operator in "
                           f"declaration order", facts, label=label)
        return
    c = S.single_value(cond) if isinstance(cond, ast.Name) else cond
    neg = False
    while isinstance(c, ast.UnaryOp) and isinstance(c.op, ast.Not):
        c, neg = c.operand, not neg
        c = S.single_value(c) if isinstance(c, ast.Name) else c
    # `any(isinstance(v, T) for v in TAB.values())`
    T = None
    if isinstance(c, ast.Call) and isinstance(c.func, ast.Name) and c.func.id == "any" and len(c.args) == 1 \
            and isinstance(c.args[0], (ast.GeneratorExp, ast.ListComp)) and len(c.args[0].generators) == 1 and not c.args[0].generators[0].ifs:
        g0 = c.args[0].generators[0]
        src = strip_wrappers(g0.iter)
        src_tab = src.func.value if isinstance(src, ast.Call) and isinstance(src.func, ast.Attribute) and src.func.attr == "values" else None
        elt = c.args[0].elt
        if isinstance(src_tab, ast.Name) and src_tab.id == tab.id and isinstance(elt, ast.Call) and call_name(elt) == "isinstance" \
                and len(elt.args) == 2 and isinstance(elt.args[0], ast.Name) and isinstance(g0.target, ast.Name) and elt.args[0].id == g0.target.id:
            T = ast.unparse(elt.args[1])
    if T is None:
        raise AnalysisError(f"{rid}: cannot judge the condition `{ast.unparse(cond)}` under which the pre-registration runs")
    facts["condition_type"] = T
    if not neg and T == def_type:
        ctx.ok(rid, f, lp, f"the pre-registration is skipped only when no `{def_type}` definition is left among the operator's arguments",
               facts, label=label)
    else:
        what = (f"no argument is a `{T}` yet" if neg else f"some argument is a `{T}`")
        ctx.violation(rid, f, lp, f"the pre-registration runs only if {what} (`{ast.unparse(c)}`), which does not mean that all `{def_type}` "
                                  f"definitions of the operator are registered: arguments that are `{T}` from the start (inputs from other "
                                  f"operators, `t`) make the skip fire on the operator's FIRST equation, so its parameters are registered in "
                                  f"first-use order and PAR slots / parnames / the signature no longer follow the declaration order",
                      facts, label=label)


RULES = [
    # today: 20 (9 uses of the slot list in _generate_auto_files + 1 in the Jacobian block, 5 slot-bearing templates, 3 hand-over
    # tables, 2 chain links); the floor leaves room for two uses to turn into something else, the categories are required separately
    ("C18-R1", r1_single_slot_list, 18),
    ("C18-R2", r2_same_reordering, 4),
    ("C18-R3", r3_states, 8),
    ("C18-R4", r4_time_slot, 4),
    ("C18-R5", r5_slot_arithmetic, 2),
    ("C18-R6", r_str_membership, 1),
    ("C18-R9", r9_preregistration_before_every_operator, 1),
    ("C18-R8", r8_values_printed_value_preservingly, 3),     # STPNT args(k), STPNT y(i), c.* lines
    ("C18-R7", r7_export_state_is_per_instance, 5),      # declaration table, op-call table, code lines, imports, helper functions
]
