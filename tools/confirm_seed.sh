#!/bin/sh
# usage: tools/confirm_seed.sh <worktree>   — confirm a seeded change: demo fails with it, passes without it, test-suite unchanged with it
WT="$1"
cd "$WT" || exit 3
PATCH="$WT/.scratch/patch.diff"
echo "== demo WITH change"; timeout 600 /venv/bin/python .scratch/demo.py > .scratch/_demo_with.txt 2>&1; echo "exit=$?"; tail -2 .scratch/_demo_with.txt
git apply -R "$PATCH" || { echo "cannot reverse patch"; exit 3; }
echo "== demo WITHOUT change"; timeout 600 /venv/bin/python .scratch/demo.py > .scratch/_demo_without.txt 2>&1; echo "exit=$?"; tail -2 .scratch/_demo_without.txt
git apply "$PATCH"
echo "== tests WITH change"; timeout 1500 /venv/bin/python -m pytest -q -p no:cacheprovider --timeout=900 --continue-on-collection-errors 2>&1 | grep -E "^(FAILED|ERROR)|passed|failed" | tail -8
