#!/bin/sh
# usage: tools/try_seed.sh <patch.diff> PROP [PROP...]   — apply a seeded change to /repo, run the checks, undo it
P="$(realpath "$1")"; shift
cd /verif
if ! git -C /repo diff --quiet; then echo "/repo has uncommitted changes"; exit 3; fi
git -C /repo apply "$P" || { echo "patch does not apply"; exit 3; }
for prop in "$@"; do
  ./check "$prop" --no-write | grep -E "^(VIOLATION|ANALYSIS-ERROR|  rule=|\[C)" 
done
git -C /repo checkout -- .
git -C /repo status --short | head -3
