#!/venv/bin/python
"""usage: tools/save_seed.py <worktree> <seed-id> <property> "<needs>" "<detected-by or MISSED>"
Stores a confirmed seeded change under /verif/seeded/<seed-id>/ (patch.diff, demo.py, notes.md, meta.json)."""
import json, os, shutil, sys, subprocess
wt, sid, prop, needs, detected = sys.argv[1:6]
dst = f"/verif/seeded/{sid}"
os.makedirs(dst, exist_ok=True)
for fn in ("patch.diff", "demo.py", "notes.md"):
    shutil.copy(os.path.join(wt, ".scratch", fn), os.path.join(dst, fn))
confirm = open(f"/tmp/seed/{os.path.basename(wt)}.confirm.txt").read() if os.path.exists(f"/tmp/seed/{os.path.basename(wt)}.confirm.txt") else ""
base = subprocess.check_output(["git", "-C", wt, "rev-parse", "HEAD"], text=True).strip()
meta = {
    "id": sid, "property": prop, "breaks": prop, "needs_to_manifest": needs,
    "base_commit_of_patch": base,
    "what_i_ran": ["tools/confirm_seed.sh <worktree>: demo with change (expect exit 1), demo without (expect exit 0), "
                   "pytest with change (expect 49 passed / the 2 baseline failures)",
                   "tools/try_seed.sh patch.diff <PROP>: git -C /repo apply, ./check, git -C /repo checkout -- ."],
    "confirmation_log": confirm,
    "detected_by": detected,
}
json.dump(meta, open(os.path.join(dst, "meta.json"), "w"), indent=1)
print("saved", dst)
