#!/bin/bash
# usage: tools/seed_matrix.sh  — every saved seeded change applied to a scratch copy of /repo's working tree; prints one line per seed
# (the property's check must exit 1).  Scratch copies live under /tmp/seedcur and are removed afterwards.
cd /verif
rm -rf /tmp/seedcur; mkdir -p /tmp/seedcur
run_one() {
  d="$1"; id=$(basename "$d"); prop=$(/venv/bin/python -c "import json,sys;print(json.load(open('$d/meta.json'))['property'])")
  t=/tmp/seedcur/$id; mkdir -p $t; cp -r /repo/pyrates $t/pyrates
  if ! (cd $t && patch -p1 -s --no-backup-if-mismatch < /verif/$d/patch.diff >/dev/null 2>&1); then echo "$id $prop PATCH-FAILED"; rm -rf $t; return; fi
  out=$(./check $prop --no-write --repo $t 2>&1); rc=$?
  echo "$id $prop exit=$rc $(echo "$out" | grep -E '  rule=' | sed 's/ at .*//' | sort -u | tr '\n' ' ')"
  rm -rf $t
}
for d in seeded/*/; do d=${d%/}; [ -f $d/patch.diff ] || continue; run_one $d & 
  while [ $(jobs -r | wc -l) -ge 12 ]; do sleep 0.3; done
done
wait
rm -rf /tmp/seedcur
