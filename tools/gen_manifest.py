#!/venv/bin/python
"""Regenerate /verif/MANIFEST.json from the rule modules (run from /verif).  Hand-maintained texts live in the
rule modules (EXPLANATION / TECHNIQUE / LEVEL_TEXT) and in NOT_APPLICABLE below."""
RP = "  Additionally rule <ID>-RP runs ten shared pitfall lints over the files the property is anchored in (a shared mutable fill that is written through, a per-iteration value that leaks into the next loop iteration, a mutated mutable default argument, a stored late-binding closure, a loop-scoped value read inside a later loop, a per-call memo keyed by one attribute of the object its value is computed from, an ordered result built from the iteration order of a set, a deepcopy whose memo is shared between loop iterations, a float quotient cut to an integer by truncation instead of rounding, an allclose/isclose that names an absolute tolerance but keeps the default relative one); it decides the absence of these defect shapes in the mechanism's code, not the behaviour."
import importlib
import json
import os
import sys

HERE = os.path.dirname(os.path.dirname(os.path.abspath(__file__)))
sys.path.insert(0, HERE)

NOT_APPLICABLE = {
    # property id -> reason (only for properties that no rule module claims)
}
# rule modules that exist but are not claimed yet (work in progress) -> listed as not applicable for now
HOLD = {}

BASELINE_CMD = ("cd /repo && /venv/bin/python -m pytest -ra -q -p no:cacheprovider --timeout=900 "
                "--continue-on-collection-errors --junitxml=/tmp/pyrates_verif_baseline.junit.xml")


def main():
    props = [json.loads(l) for l in open(os.path.join(HERE, "properties.jsonl"))]
    checks, na = [], []
    for p in props:
        pid = p["id"]
        try:
            if pid in HOLD:
                na.append({"property_id": pid, "reason": HOLD[pid]})
                continue
            mod = importlib.import_module(f"rules.{pid.lower()}")
        except ModuleNotFoundError:
            na.append({"property_id": pid, "reason": NOT_APPLICABLE.get(pid, "no sound static rule has been built for this property yet")})
            continue
        rules = [r[0] for r in mod.RULES]
        checks.append({
            "property_id": pid,
            "quick_cmd": f"./check {pid} --tier quick",
            "thorough_cmd": f"./check {pid} --tier thorough",
            "evidence_file": f"/verif/evidence/{pid}.json",
            "replay_cmd_template": f"./check {pid} --replay {{path}}",
            "engine": "pyrates-static",
            "technique": getattr(mod, "TECHNIQUE", "custom AST/CFG/dataflow rules over PyRates' own source (static analysis)"),
            "level_claimed": {
                "category": "other",
                "text": getattr(mod, "LEVEL_TEXT", "Static analysis of structural necessary conditions: rules " + ", ".join(rules) +
                                ". Every rule inspects /repo's current source (ast, resolved call graph, per-function CFG, reaching "
                                "definitions, sympy normal forms of embedded code) and reports a specific construct. A pass means none of "
                                "the enumerated structural ways of breaking the property is present; the behavioural statement itself "
                                "(numerical equality for all inputs) is not proved."),
                "design_ref": f"DESIGN.md §4 {pid}",
            },
            "level_note": mod.EXPLANATION + RP.replace("<ID>", pid),
        })
    manifest = {
        "version": 1,
        "setup_cmd": "/venv/bin/python -m compileall -q engine rules selftest >/dev/null 2>&1; /venv/bin/python -c \"import networkx, sympy\"",
        "hooks": {
            "guard": "PYRATES_VERIF",
            "enable": "none needed: the checks never execute PyRates, they parse /repo's working tree",
            "baseline_off_cmd": BASELINE_CMD,
            "source_commits": [],
            "add_only": True,
        },
        "engines": [{
            "name": "pyrates-static",
            "path": "/verif/engine",
            "serves_properties": [c["property_id"] for c in checks],
            "kind_free_text": "static analysis: stdlib ast source model + C3 MRO + resolved call graph + statement CFG (networkx) + "
                              "reaching definitions + sympy normal forms for embedded helper/equation templates; rules in /verif/rules",
        }],
        "checks": checks,
        "not_applicable": na,
        "notes": "All checks are static (no import or execution of pyrates). Exit 0 held / known finding only, 1 VIOLATION, 2 ANALYSIS-ERROR "
                 "(checker cannot decide; never on the unchanged tree). Known findings: /verif/known_findings.json. Thorough tier adds the "
                 "mutation battery (selftest/) on scratch copies under mkdtemp, removed immediately.",
    }
    with open(os.path.join(HERE, "MANIFEST.json"), "w") as f:
        json.dump(manifest, f, indent=1)
    print(f"claimed {len(checks)}, not applicable {len(na)}")


if __name__ == "__main__":
    main()
