#!/bin/bash
# usage: tools/combo_matrix.sh  — every saved seeded change applied ON TOP of every saved refactoring it still applies to
# (only combinations where the seed touches a file the refactoring changed are interesting; all applicable ones are run).
# The property's check must still exit 1.  Prints every combination that does not.
cd /verif
S=/tmp/combocur; rm -rf $S; mkdir -p $S
n=0; bad=0
run() { k=$1; d=$2; id=$(basename $d); prop=$3
  t=$S/$k-$id; mkdir -p $t; cp -r $S/base-$k/pyrates $t/pyrates
  (cd $t && patch -p1 -s -f -F1 --no-backup-if-mismatch < /verif/$d/patch.diff >/dev/null 2>&1) || { rm -rf $t; return; }
  out=$(./check $prop --no-write --repo $t 2>&1); rc=$?
  echo "$k+$id $prop exit=$rc $(echo "$out" | grep -E '  rule=' | sed 's/ at .*//' | sort -u | tr '\n' ' ')" >> $S/results.txt
  rm -rf $t
}
for r in refactorings/RF*/; do k=$(basename $r); mkdir -p $S/base-$k; cp -r /repo/pyrates $S/base-$k/pyrates
  (cd $S/base-$k && patch -p1 -s -f --no-backup-if-mismatch < /verif/$r/patch.diff >/dev/null 2>&1) || echo "$k PATCH-FAILED"
  files=$(grep '^+++ b/' $r/patch.diff | sed 's/^+++ b\///')
  for d in seeded/*/; do d=${d%/}; [ -f $d/patch.diff ] || continue
    sf=$(grep '^+++ b/' $d/patch.diff | sed 's/^+++ b\///')
    hit=0; for f in $sf; do case " $files " in *" $f "*|*"$f"*) hit=1;; esac; done
    [ $hit -eq 1 ] || continue
    prop=$(/venv/bin/python -c "import json;print(json.load(open('$d/meta.json'))['property'])")
    run $k $d $prop &
    n=$((n+1)); if [ $((n % 14)) -eq 0 ]; then wait; fi
  done
done
wait
touch $S/results.txt
echo "combinations that applied: $(wc -l < $S/results.txt)"
grep -v "exit=1" $S/results.txt
rm -rf $S
