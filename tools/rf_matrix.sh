#!/bin/sh
# usage: tools/rf_matrix.sh [PROP ...]  — run the checks on every refactored tree under /tmp/rf/RF*, print non-zero exits
cd /verif
PROPS="$@"; [ -z "$PROPS" ] && PROPS="C01 C02 C03 C04 C05 C06 C07 C08 C09 C10 C11 C12 C13 C14 C15 C16 C17 C18 C19 C20"
for t in /tmp/rf/RF*; do
  for p in $PROPS; do
    out=$(./check $p --no-write --repo $t 2>&1); rc=$?
    if [ $rc -ne 0 ]; then echo "$(basename $t) $p exit=$rc :: $(echo "$out" | grep -E 'rule=|ANALYSIS-ERROR' | head -3 | cut -c1-220 | tr '\n' '|')"; fi
  done
done
