#!/bin/bash
# usage: tools/ft_matrix.sh [PROP ...]
# Applies every saved repaired feature pull request (features/FTnn/patch.diff, base = /repo HEAD) to a scratch copy of
# /repo's package, runs the checks on it and prints every non-zero cell (expected: none).  Scratch copies are removed afterwards.
cd /verif
PROPS="$@"; [ -z "$PROPS" ] && PROPS="C01 C02 C03 C04 C05 C06 C07 C08 C09 C10 C11 C12 C13 C14 C15 C16 C17 C18 C19 C20"
S=/tmp/ftall_$$; rm -rf $S; mkdir -p $S
for d in features/F[TUV]*/; do
  k=$(basename $d); mkdir -p $S/$k; cp -r /repo/pyrates $S/$k/pyrates
  (cd $S/$k && patch -p1 -s --no-backup-if-mismatch < /verif/$d/patch.diff >/dev/null 2>&1) || echo "$k PATCH-FAILED"
done
cell() { t=$1; p=$2
  out=$(./check $p --no-write --repo $S/$t 2>&1); rc=$?
  if [ $rc -ne 0 ]; then echo "$t $p exit=$rc :: $(echo "$out" | grep -E 'rule=|ANALYSIS-ERROR' | head -3 | cut -c1-220 | tr '\n' '|')"; fi
}
n=0
for t in $(ls $S); do for p in $PROPS; do
  cell $t $p &
  n=$((n+1)); if [ $((n % 14)) -eq 0 ]; then wait; fi
done; done
wait
echo "cells run: $n"
rm -rf $S
