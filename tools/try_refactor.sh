#!/bin/sh
# usage: tools/try_refactor.sh <patch.diff>  — apply a behaviour-preserving refactoring to /repo, run ALL checks, undo it
P="$(realpath "$1")"
cd /verif
if ! git -C /repo diff --quiet; then echo "/repo has uncommitted changes"; exit 3; fi
git -C /repo apply "$P" || { echo "patch does not apply"; exit 3; }
for prop in C01 C02 C03 C04 C05 C06 C07 C08 C09 C10 C11 C12 C13 C14 C15 C16 C17 C18 C19 C20; do
  ./check "$prop" --no-write > /tmp/_rf_$prop.txt 2>&1
  rc=$?
  if [ $rc -ne 0 ]; then echo "== $prop exit=$rc"; grep -E "^(VIOLATION|ANALYSIS-ERROR|  rule=)" /tmp/_rf_$prop.txt | head -6; fi
done
rm -f /tmp/_rf_C*.txt
git -C /repo checkout -- .
git -C /repo status --short | head -3
