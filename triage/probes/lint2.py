import ast, pathlib
root = pathlib.Path('/repo/pyrates')
MUT = {'append','extend','update','pop','clear','insert','remove','setdefault','popitem','add','discard','sort','reverse'}
def base_attr(e):
    # returns ('self','edges') for self.edges or self.edges[...] chain
    while isinstance(e, ast.Subscript): e = e.value
    if isinstance(e, ast.Attribute) and isinstance(e.value, ast.Name): return (e.value.id, e.attr)
    return None
for p in sorted((root/'frontend').rglob('*.py')) + [root/'utility.py']:
    tree = ast.parse(p.read_text())
    for fn in ast.walk(tree):
        if not isinstance(fn, ast.FunctionDef): continue
        params = {a.arg for a in fn.args.args + fn.args.kwonlyargs}
        alias = {}
        for st in ast.walk(fn):
            if isinstance(st, ast.Assign) and len(st.targets)==1 and isinstance(st.targets[0], ast.Name):
                v = st.value
                b = base_attr(v)
                if b and b[0] in params: alias[st.targets[0].id] = (b, st.lineno)
                if isinstance(v, ast.IfExp):
                    for br in (v.body, v.orelse):
                        b = base_attr(br)
                        if b and b[0] in params: alias[st.targets[0].id] = (b, st.lineno)
                if isinstance(v, ast.Dict):
                    for k, vv in zip(v.keys, v.values):
                        b = base_attr(vv)
                        if b and b[0] in params: alias[(st.targets[0].id, getattr(k,'value',None))] = (b, st.lineno)
        for st in ast.walk(fn):
            if isinstance(st, ast.Call) and isinstance(st.func, ast.Attribute) and st.func.attr in MUT:
                tgt = st.func.value
                if isinstance(tgt, ast.Name) and tgt.id in alias:
                    print(f"{p.relative_to(root)}:{st.lineno} {fn.name}: {tgt.id}.{st.func.attr}() mutates alias of {alias[tgt.id][0]} (bound line {alias[tgt.id][1]})")
                if isinstance(tgt, ast.Subscript) and isinstance(tgt.value, ast.Name) and isinstance(tgt.slice, ast.Constant) and (tgt.value.id, tgt.slice.value) in alias:
                    a = alias[(tgt.value.id, tgt.slice.value)]
                    print(f"{p.relative_to(root)}:{st.lineno} {fn.name}: {tgt.value.id}[{tgt.slice.value!r}].{st.func.attr}() mutates alias of {a[0]}")
            if isinstance(st, (ast.Assign, ast.AugAssign)):
                tg = st.targets if isinstance(st, ast.Assign) else [st.target]
                for t in tg:
                    if isinstance(t, ast.Subscript) and isinstance(t.value, ast.Name) and t.value.id in alias:
                        print(f"{p.relative_to(root)}:{st.lineno} {fn.name}: {t.value.id}[...] = ... mutates alias of {alias[t.value.id][0]}")
