import numpy as np, warnings
warnings.simplefilter("ignore")
from pyrates import CircuitTemplate, NodeTemplate, OperatorTemplate, clear
def mk():
    op = OperatorTemplate('op', equations=["x' = -past(x, 0.2)"], variables={'x': 'variable(1.0)'})
    return CircuitTemplate('c', nodes={'a': NodeTemplate('n', operators=[op])})
for be, solver in [('default','euler'), ('torch','euler'), ('jax', 'euler'), ('default','heun'), ('default','scipy'), ('torch','scipy'), ('jax','scipy')]:
    try:
        c = mk()
        r = c.run(simulation_time=2.0, step_size=0.001, outputs={'o': 'a/op/x'}, solver=solver, backend=be, verbose=False, in_place=False, clear=True, float_precision='float64', vectorize=False)
        print(be, solver, r['o'].values[-1], len(r))
    except Exception as e:
        print(be, solver, 'EXC', type(e).__name__, str(e)[:150])
