import numpy as np, warnings
warnings.filterwarnings("ignore")
from pyrates import CircuitTemplate, NodeTemplate, OperatorTemplate, clear

def vf(circ, vectorize):
    return circ.get_run_func('f', step_size=1e-3, verbose=False, vectorize=vectorize, backend='default', float_precision='float64')

def mk():
    op = OperatorTemplate('op', equations=["x' = -x + inp", "q = 2.0*x"], variables={'x': 'variable(1.0)', 'q': 'variable(0.0)', 'inp': 'input(0.0)'})
    return op
# (2) parallel edges between same variable pair
for vec in (False, True):
    op = mk()
    n1 = NodeTemplate('n1', operators=[op]); n2 = NodeTemplate('n2', operators=[op])
    c = CircuitTemplate('c', nodes={'a': n1, 'b': n2},
        edges=[('a/op/x', 'b/op/inp', None, {'weight': 2.0}), ('a/op/x', 'b/op/inp', None, {'weight': 3.0})])
    f, args, names, smap = vf(c, vec)
    y = np.array(args[1], dtype=float)
    dy = np.array(f(0, y, *args[2:]))
    print('parallel vec=', vec, smap, dy, 'expected b/x\' = -1 + 5 = 4')
    clear(c)
# (3) two different source vars of one node to same target var
for vec in (False, True):
    op = mk()
    n1 = NodeTemplate('n1', operators=[op]); n2 = NodeTemplate('n2', operators=[op])
    c = CircuitTemplate('c', nodes={'a': n1, 'b': n2},
        edges=[('a/op/x', 'b/op/inp', None, {'weight': 2.0}), ('a/op/q', 'b/op/inp', None, {'weight': 3.0})])
    try:
        f, args, names, smap = vf(c, vec)
        y = np.array(args[1], dtype=float)
        dy = np.array(f(0, y, *args[2:]))
        print('twovars vec=', vec, smap, dy, 'expected b/x\' = -1 + 2*1 + 3*2 = 7')
    except Exception as e:
        print('twovars vec=', vec, 'EXC', type(e), e)
    clear(c)
