import numpy as np, warnings
warnings.simplefilter("ignore")
from pyrates import CircuitTemplate, NodeTemplate, OperatorTemplate, clear
from pyrates.frontend.template.population import PopulationTemplate, Connectivity
def mkop(): return OperatorTemplate('op', equations=["x' = -k*x + inp"], variables={'x': 'variable(1.0)', 'k': 2.0, 'inp': 'input(0.0)'})
c = CircuitTemplate('c', nodes={'a': NodeTemplate('n', operators=[mkop()])})
for outs in ({'o': 'a/op/xx', 'p': 'a/op/x'}, ['a/op/xx'], {'o': 'zz/op/x', 'p': 'a/op/x'}):
    try:
        r = c.run(simulation_time=0.005, step_size=1e-3, outputs=outs, verbose=False, in_place=False, clear=True)
        print('(b)', outs, '->', list(r.columns), r.shape)
    except Exception as e: print('(b)', outs, 'EXC', type(e).__name__, str(e)[:100])
