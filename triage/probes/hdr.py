import numpy as np, warnings
warnings.simplefilter("ignore")
from pyrates import CircuitTemplate, NodeTemplate, OperatorTemplate, clear
from pyrates.frontend.template.population import PopulationTemplate, Connectivity
def mkop(): return OperatorTemplate('op', equations=["x' = -k*x + inp"], variables={'x': 'variable(1.0)', 'k': 2.0, 'inp': 'input(0.0)'})
