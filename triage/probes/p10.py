import numpy as np, warnings
warnings.simplefilter("ignore")
from pyrates import CircuitTemplate, NodeTemplate, OperatorTemplate, clear
src = OperatorTemplate('src', equations=["x' = 1.0"], variables={'x': 'variable(0.0)'})
tgt = OperatorTemplate('tgt', equations=["r = inp"], variables={'r': 'variable(0.0)', 'inp': 'input(0.0)'})
tgt2 = OperatorTemplate('tgt', equations=["z' = 0.0*z", "r = inp"], variables={'z': 'variable(0.0)', 'r': 'variable(0.0)', 'inp': 'input(0.0)'})
dt = 0.1
for vec in (False, True):
  for edges, name in [([('a/src/x','b/tgt/inp',None,{'weight':1.0})], 'undelayed only'),
                      ([('a/src/x','b/tgt/inp',None,{'weight':1.0}), ('a/src/x','c/tgt/inp',None,{'weight':1.0,'delay':0.3})], 'mixed'),
                      ([('a/src/x','b/tgt/inp',None,{'weight':1.0,'delay':0.2}), ('a/src/x','c/tgt/inp',None,{'weight':1.0,'delay':0.3})], 'two delays')]:
    tg = OperatorTemplate('tgt', equations=["r' = inp"], variables={'r': 'variable(0.0)', 'inp': 'input(0.0)'})
    c = CircuitTemplate('c', nodes={'a': NodeTemplate('a', operators=[src]), 'b': NodeTemplate('b', operators=[tg]), 'c': NodeTemplate('c', operators=[tg])}, edges=edges)
    f, args, names, smap = c.get_run_func('f', step_size=dt, verbose=False, vectorize=vec, backend='default', float_precision='float64', in_place=False, solver='euler')
    y = np.array(args[1], dtype=float)
    rows=[]
    for k in range(6):
        dy = np.array(f(k, y, *args[2:])).copy()
        rows.append(np.round(dy,3).tolist())
        y = y + dt*dy
    print('vec',vec,name, smap); [print('   k',k,r) for k,r in enumerate(rows)]
    clear(c)
