import numpy as np, warnings
warnings.simplefilter("ignore")
from pyrates import CircuitTemplate, NodeTemplate, OperatorTemplate, clear
from pyrates.frontend.template.population import PopulationTemplate, Connectivity
def mkop(): return OperatorTemplate('op', equations=["x' = -k*x + inp"], variables={'x': 'variable(1.0)', 'k': 2.0, 'inp': 'input(0.0)'})
from pyrates.backend.fortran.fortran_funcs import fortran_funcs
from pyrates.backend.fortran import FortranBackend
print('before', fortran_funcs['sigmoid']['call'])
b = FortranBackend(float_precision='float64'); b.get_op('sigmoid', shape=(), dtype='float')
print('after one backend used sigmoid:', fortran_funcs['sigmoid']['call'], 'def dtype line:', [l for l in fortran_funcs['sigmoid'].get('def','').splitlines() if '::' in l][:1])
b2 = FortranBackend(float_precision='float32'); info = b2.get_op('sigmoid', shape=(), dtype='float')
print('second backend (float32) helper funcs:', [l for l in b2._helper_funcs[0].splitlines() if '::' in l][:1])
# matrix delay collision
op = OperatorTemplate('op', equations=["x' = -k_d1*x + inp"], variables={'x': 'variable(1.0)', 'k_d1': 2.0, 'inp': 'input(0.0)'})
n = NodeTemplate('n', operators=[op]); pop = PopulationTemplate('p', n, 2)
W = np.array([[0,1],[1,0]], float)
c = CircuitTemplate('c', populations={'p': pop}, connections=[Connectivity('p/op/x', 'p/op/inp', W, delays=0.5, spread=0.5)])
f, args, names, smap = c.get_run_func('f', step_size=1e-3, verbose=False, vectorize=True, float_precision='float64', in_place=False, clear=True, solver='scipy')
print(names, [np.asarray(a).tolist() for a in args[3:]], smap)
y = np.array(args[1], float); print('dy', f(0.0, y, *args[2:]), "expected x' = -2*1 + 0 = -2 for both units")
