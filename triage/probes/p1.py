import numpy as np, warnings
warnings.filterwarnings("ignore")
from pyrates import CircuitTemplate, NodeTemplate, OperatorTemplate, clear
from pyrates.utility import clear_frontend_caches

def vf(circ, **kw):
    f, args, names, smap = circ.get_run_func('f', step_size=1e-3, verbose=False, vectorize=kw.pop('vectorize', False), backend='default', float_precision='float64', **kw)
    return f, args, names, smap

# (1) stale loop variable: op with two inputs a (multiply driven) then b (singly driven)
src1 = OperatorTemplate('s1', equations=["x' = -x", "a = 2.0*x"], variables={'x': 'variable(1.0)', 'a': 'output(0.0)'})
src2 = OperatorTemplate('s2', equations=["z' = -z", "a = 3.0*z"], variables={'z': 'variable(1.0)', 'a': 'output(0.0)'})
src3 = OperatorTemplate('s3', equations=["w' = -w", "b = 5.0*w"], variables={'w': 'variable(1.0)', 'b': 'output(0.0)'})
tgt = OperatorTemplate('tg', equations=["v' = a + 10.0*b"], variables={'v': 'variable(0.0)', 'a': 'input(0.0)', 'b': 'input(0.0)'})
n = NodeTemplate('n', operators=[src1, src2, src3, tgt])
c = CircuitTemplate('c', nodes={'n': n})
f, args, names, smap = vf(c)
print(names, smap)
y = np.array(args[1], dtype=float)
print('y0', y)
dy = f(0, y, *args[2:])
print('dy', dy, 'expected v\' = 2*1+3*1+10*5*1 = 55')
print(open('pyrates_func.py').read())
clear(c)
