import numpy as np, warnings
warnings.simplefilter("always")
from pyrates import CircuitTemplate, NodeTemplate, OperatorTemplate, clear
from copy import deepcopy

def mkop(name='op'):
    return OperatorTemplate(name, equations=["x' = -k*x + inp"], variables={'x': 'variable(1.0)', 'k': 2.0, 'inp': 'input(0.0)'})
# C06: list-form outputs with vectorization
op = mkop()
na = NodeTemplate('na', operators={op: {'k': 1.0}}); nb = NodeTemplate('nb', operators={op: {'k': 3.0}})
c = CircuitTemplate('c', nodes={'a': na, 'b': nb})
for outs in ({'o': 'b/op/x'}, ['b/op/x'], ['a/op/x'], {'o':'all/op/x'}):
    for vec in (True, False):
        r = c.run(simulation_time=0.01, step_size=1e-3, outputs=deepcopy(outs), vectorize=vec, verbose=False, in_place=False, clear=True, float_precision='float64')
        print('outputs', outs, 'vec', vec, list(r.columns), r.iloc[-1].values)
# expected: a decays with rate 1 -> ~0.991; b with rate 3 -> ~0.973
