import numpy as np, warnings
warnings.simplefilter("ignore")
from pyrates import CircuitTemplate, NodeTemplate, OperatorTemplate, clear
from pyrates.frontend.template.population import PopulationTemplate, Connectivity
def mkop(): return OperatorTemplate('op', equations=["x' = -k*x + inp"], variables={'x': 'variable(1.0)', 'k': 2.0, 'inp': 'input(0.0)'})
# D-20: torch model then numpy model using sigmoid
def mk(): 
    op = OperatorTemplate('op', equations=["x' = -x + sigmoid(x)"], variables={'x': 'variable(1.0)'})
    return CircuitTemplate('c', nodes={'a': NodeTemplate('n', operators=[op])})
import pyrates.backend.base.base_backend as bb
c = mk(); f, args, names, smap = c.get_run_func('f', step_size=1e-3, verbose=False, vectorize=False, float_precision='float64', in_place=False, clear=True, backend='torch')
print('after torch: base_backend.exp is', getattr(bb, 'exp', None))
try:
    c = mk(); f, args, names, smap = c.get_run_func('f', step_size=1e-3, verbose=False, vectorize=False, float_precision='float64', in_place=False, clear=True, backend='default')
    print('D-20 numpy after torch:', f(0, np.array([1.0]), *args[2:]), 'expected', -1 + 1/(1+np.exp(-1)))
except Exception as e: print('D-20 EXC', type(e).__name__, str(e)[:200])
