import numpy as np, warnings
warnings.simplefilter("ignore")
from pyrates import CircuitTemplate, NodeTemplate, OperatorTemplate, clear
from pyrates.frontend.template.population import PopulationTemplate, Connectivity
def mkop(): return OperatorTemplate('op', equations=["x' = -k*x + inp"], variables={'x': 'variable(1.0)', 'k': 2.0, 'inp': 'input(0.0)'})
n = NodeTemplate('n', operators=[mkop()])
cA = CircuitTemplate('A', nodes={'a': n, 'b': n}); cB = CircuitTemplate('B', nodes={'u': n})
fA, aA, _, sA = cA.get_run_func('fa', step_size=1e-3, verbose=False, vectorize=True, float_precision='float64', in_place=False, clear=False)
fB, aB, _, sB = cB.get_run_func('fb', step_size=1e-3, verbose=False, vectorize=True, float_precision='float64', in_place=False, clear=False)
print('(c) first', sA, 'second (expected 1 state)', sB, aB[1])
base = OperatorTemplate('b', equations=["x' = -x"], variables={'x': 'variable(1.0)', 'unused': 3.0})
d = base.update_template(name='d')
print('(d) base variables after deriving:', base.variables)
