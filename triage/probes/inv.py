import ast, pathlib
root = pathlib.Path('/repo/pyrates')
def is_mut(v):
    if isinstance(v, (ast.Dict, ast.List, ast.Set, ast.ListComp, ast.DictComp, ast.SetComp)): return True
    if isinstance(v, ast.Call) and isinstance(v.func, ast.Name) and v.func.id in ('dict','list','set','defaultdict','OrderedDict'): return True
    return False
for p in sorted(root.rglob('*.py')):
    t = ast.parse(p.read_text())
    for st in t.body:
        if isinstance(st, (ast.Assign, ast.AnnAssign)):
            v = st.value; tg = st.targets[0] if isinstance(st, ast.Assign) else st.target
            if v is not None and is_mut(v) and isinstance(tg, ast.Name):
                n = len(v.keys) if isinstance(v, ast.Dict) else (len(v.elts) if hasattr(v,'elts') else 0)
                print(f"MODULE {p.relative_to(root)}:{st.lineno} {tg.id} ({type(v).__name__}, {n} items)")
        if isinstance(st, ast.ClassDef):
            for s2 in st.body:
                if isinstance(s2, (ast.Assign, ast.AnnAssign)):
                    v = s2.value; tg = s2.targets[0] if isinstance(s2, ast.Assign) else s2.target
                    if v is not None and is_mut(v) and isinstance(tg, ast.Name):
                        print(f"CLASS  {p.relative_to(root)}:{s2.lineno} {st.name}.{tg.id} ({type(v).__name__})")
                    elif v is not None and isinstance(tg, ast.Name) and isinstance(v, ast.Constant) and isinstance(v.value,(int,)) and not isinstance(v.value,bool):
                        print(f"CLASSC {p.relative_to(root)}:{s2.lineno} {st.name}.{tg.id} = {v.value}")
