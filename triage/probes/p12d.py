import numpy as np, warnings
warnings.simplefilter("ignore")
from pyrates import CircuitTemplate, NodeTemplate, OperatorTemplate, clear
from pyrates.frontend.template.population import PopulationTemplate, Connectivity
def mkop(): return OperatorTemplate('op', equations=["x' = -k*x + inp"], variables={'x': 'variable(1.0)', 'k': 2.0, 'inp': 'input(0.0)'})
n = NodeTemplate('n', operators=[mkop()])
pop = PopulationTemplate('p', n, 3, params={'op/k': [1.0, 2.0, 3.0]})
W = np.array([[0,1,0],[0,0,1],[1,0,0]], float)
c = CircuitTemplate('c', populations={'p': pop}, connections=[Connectivity('p/op/x', 'p/op/inp', W)])
try:
    f, args, names, smap = c.get_run_func('f', step_size=1e-3, verbose=False, vectorize=True, float_precision='float64', in_place=False, clear=True, inputs={'p/op/inp': np.ones((10,))})
    print('   with inputs: state map', smap, 'y0', args[1], names)
except Exception as e: print('   with inputs EXC', type(e).__name__, str(e)[:120])
