import numpy as np, warnings
warnings.simplefilter("ignore")
from pyrates import CircuitTemplate, NodeTemplate, OperatorTemplate, clear
from copy import deepcopy
def mkop(name='op', k=2.0):
    return OperatorTemplate(name, equations=["x' = -k*x + inp"], variables={'x': 'variable(1.0)', 'k': k, 'inp': 'input(0.0)'})
def args_of(c, **kw):
    f, args, names, smap = c.get_run_func('f', step_size=1e-3, verbose=False, vectorize=False, backend='default', float_precision='float64', in_place=False, clear=True, **kw)
    return dict(zip(names[3:], [float(np.squeeze(a)) for a in args[3:]])), np.array(args[1])
# C07/C14: apply(node_values) persists in template variations
op = mkop(); n = NodeTemplate('n', operators=[op]); c = CircuitTemplate('c', nodes={'a': n, 'b': n})
print('before', n.operators)
c2 = deepcopy(c)
c2.apply(node_values={'a/op/k': 7.0}, vectorize=False, verbose=False, step_size=1e-3, backend='default')
print('after apply(node_values) variations:', {k.name: v for k,v in c2.nodes['a'].operators.items()}, {k.name: v for k,v in c2.nodes['b'].operators.items()}, 'same node obj', c2.nodes['a'] is c2.nodes['b'])
clear(c2)
# C14: get_edges on hierarchical circuit grows edges
sub = CircuitTemplate('sub', nodes={'a': n, 'b': n}, edges=[('a/op/x','b/op/inp',None,{'weight':1.0})])
top = CircuitTemplate('top', circuits={'s1': sub, 's2': deepcopy(sub)})
print('edges before', len(top.edges)); top.get_edges('all','all'); print('after 1', len(top.edges)); top.get_edges('all','all'); print('after 2', len(top.edges))
# C14: to_yaml writes overrides into shared OperatorTemplate
op = mkop(); na = NodeTemplate('na', operators={op: {'k': 9.0}}); nb = NodeTemplate('nb', operators=[op])
c = CircuitTemplate('c', nodes={'a': na, 'b': nb})
print('op.variables before', op.variables)
c.to_yaml('/tmp/probe/out/model/c')
print('op.variables after to_yaml', op.variables)
# C20: input to nonexistent variable
warnings.simplefilter("always")
op = mkop(); n = NodeTemplate('n', operators=[op]); c = CircuitTemplate('c', nodes={'a': n})
with warnings.catch_warnings(record=True) as w:
    r = c.run(simulation_time=0.01, step_size=1e-3, inputs={'a/op/inpp': np.ones(10)}, outputs={'o':'a/op/x'}, verbose=False, in_place=False, clear=True)
    print('C20 warnings:', [str(x.message)[:60] for x in w], r.iloc[-1].values)
