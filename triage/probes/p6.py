import numpy as np, warnings
warnings.simplefilter("ignore")
from pyrates import CircuitTemplate, NodeTemplate, OperatorTemplate, clear
# C12: DDE where delayed var is 2nd state var
op = OperatorTemplate('op', equations=["a' = -a + past(b, 0.5)", "b' = -2.0*b + a"], variables={'a': 'variable(1.0)', 'b': 'variable(2.0)'})
n = NodeTemplate('n', operators=[op]); c = CircuitTemplate('c', nodes={'n': n})
J, args, names, smap = c.get_jacobian_func('jac', step_size=1e-3, verbose=False, vectorize=False, backend='default', float_precision='float64', solver='scipy')
print(names, smap)
out = J(*args)
print('J0=\n', out[0], '\nJhist=\n', out[1][0], '\nexpected Jhist[0,1]=1 (da/d b(t-tau)), smap gives b index', smap)
clear(c)
# C13: second operator with same name, different equations
op1 = OperatorTemplate('op', equations=["x' = -x"], variables={'x': 'variable(1.0)'})
c1 = CircuitTemplate('c1', nodes={'n': NodeTemplate('n', operators=[op1])})
f1, a1, _, _ = c1.get_run_func('f1', step_size=1e-3, verbose=False, vectorize=False, float_precision='float64')
op2 = OperatorTemplate('op', equations=["x' = -5.0*x"], variables={'x': 'variable(1.0)'})
c2 = CircuitTemplate('c2', nodes={'n': NodeTemplate('n', operators=[op2])})
f2, a2, _, _ = c2.get_run_func('f2', step_size=1e-3, verbose=False, vectorize=False, float_precision='float64')
print('C13 second model dy:', f2(0, np.array([1.0]), *a2[2:]), 'expected -5')
