import numpy as np, warnings
warnings.filterwarnings("ignore")
from pyrates import CircuitTemplate, NodeTemplate, OperatorTemplate, clear
op1 = OperatorTemplate('o1', equations=["x' = -x"], variables={'x': 'variable(1.0)'})
op2 = OperatorTemplate('o2', equations=["x' = -2.0*x + x_v1"], variables={'x': 'variable(2.0)', 'x_v1': 5.0})
c = CircuitTemplate('c', nodes={'n': NodeTemplate('n', operators=[op1, op2])})
f, args, names, smap = c.get_run_func('f', step_size=1e-3, verbose=False, vectorize=False, backend='default', float_precision='float64')
y = np.array(args[1], dtype=float)
print(names, smap, 'y0', y, 'args', args[3:], 'dy', f(0, y, *args[2:]), 'expected o1:-1, o2: -4+5=1')
