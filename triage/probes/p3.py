import numpy as np, warnings
warnings.filterwarnings("ignore")
from pyrates import CircuitTemplate, NodeTemplate, OperatorTemplate, clear
from pyrates.backend.parser import replace
# C15 replace
for eq, t, r in [("rr+1", "r", "X"), ("a = rr*r", "r", "X"), ("x' = m_in2 + m_in", "m_in", "Z"), ("y = r", "r", "X"), ("r", "r", "X"), ("y = 2*r_in + r", "r", "(a+b)")]:
    print(repr(eq), t, '->', repr(replace(eq, t, r)))
# C05: user var named x_v1 alongside two x
op1 = OperatorTemplate('o1', equations=["x' = -x"], variables={'x': 'variable(1.0)'})
op2 = OperatorTemplate('o2', equations=["x' = -2.0*x + x_v1"], variables={'x': 'variable(2.0)', 'x_v1': 'variable(5.0)'})
n = NodeTemplate('n', operators=[op1, op2])
c = CircuitTemplate('c', nodes={'n': n})
try:
    f, args, names, smap = c.get_run_func('f', step_size=1e-3, verbose=False, vectorize=False, backend='default', float_precision='float64')
    y = np.array(args[1], dtype=float)
    print(names, smap, 'y0', y, 'dy', f(0, y, *args[2:]), 'expected o1:-1, o2: -4+5=1')
    print(open('pyrates_func.py').read())
except Exception as e:
    print("EXC", type(e), e)
clear(c)
