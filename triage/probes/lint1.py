import ast, sys, pathlib
root = pathlib.Path('/repo/pyrates')
def names(node, ctx):
    return [n for n in ast.walk(node) if isinstance(n, ast.Name) and isinstance(n.ctx, ctx)]
for p in sorted(root.rglob('*.py')):
    tree = ast.parse(p.read_text())
    for fn in ast.walk(tree):
        if not isinstance(fn, (ast.FunctionDef, ast.AsyncFunctionDef)): continue
        loops = [n for n in ast.walk(fn) if isinstance(n, ast.For)]
        for lp in loops:
            tg = {n.id for n in names(lp.target, ast.Store)}
            body_loads = set()
            for s in lp.body + lp.orelse:
                body_loads |= {n.id for n in names(s, ast.Load)}
            unused = {t for t in tg if t not in body_loads and not t.startswith('_')}
            # stale: loads of other-loop targets inside this loop body where that other loop ended before this loop starts and is not an ancestor
            for other in loops:
                if other is lp: continue
                if other.end_lineno < lp.lineno:
                    otg = {n.id for n in names(other.target, ast.Store)}
                    # is other an ancestor? no since ended before. is lp nested in other? no.
                    stale = (otg & body_loads) - tg
                    # exclude if reassigned between
                    for s in stale:
                        reassigned = any(isinstance(n, ast.Name) and n.id == s and isinstance(n.ctx, ast.Store) and other.end_lineno < n.lineno for n in ast.walk(fn) if not any(n is x for x in ast.walk(other)))
                        if not reassigned and unused:
                            print(f"{p.relative_to(root)}:{lp.lineno} fn={fn.name} loop unused={sorted(unused)} uses stale {s!r} from loop at {other.lineno}")
