import numpy as np, warnings
warnings.simplefilter("ignore")
from pyrates import CircuitTemplate, NodeTemplate, OperatorTemplate, clear
from pyrates.frontend.template.population import PopulationTemplate, Connectivity
def mkop(): return OperatorTemplate('op', equations=["x' = -k*x + inp"], variables={'x': 'variable(1.0)', 'k': 2.0, 'inp': 'input(0.0)'})
# D-9: population operator declaring k_d1, Connectivity with delay 0.25 + spread 0.25 -> order 1, rate 4
op = OperatorTemplate('op', equations=["x' = -k_d1*x + inp"], variables={'x': 'variable(1.0)', 'k_d1': 2.0, 'inp': 'input(0.0)'})
n = NodeTemplate('n', operators=[op]); pop = PopulationTemplate('p', n, 2)
W = np.array([[0,1],[1,0]], float)
c = CircuitTemplate('c', populations={'p': pop}, connections=[Connectivity('p/op/x', 'p/op/inp', W, delays=0.25, spread=0.25)])
f, args, names, smap = c.get_run_func('f', step_size=1e-3, verbose=False, vectorize=True, float_precision='float64', in_place=False, clear=True, solver='scipy')
print(names, [np.asarray(a).tolist() for a in args[3:]], smap)
y = np.array(args[1], float); print('D-9 dy', f(0.0, y, *args[2:]), "expected x' = -2*1 + 0 = -2 for both units, x_d1' = 4*(1-0) = 4")
