import numpy as np, warnings
warnings.simplefilter("ignore")
from pyrates import CircuitTemplate, NodeTemplate, OperatorTemplate, clear
def mk():
    op = OperatorTemplate('op', equations=["x' = inp"], variables={'x': 'variable(0.0)', 'inp': 'input(0.0)'})
    return CircuitTemplate('c', nodes={'a': NodeTemplate('n', operators=[op])})
T, dt = 1.0, 0.01
N = int(round(T/dt)); u = np.sin(np.linspace(0, 6, N))**2 * 10
res = {}
for be, solver in [('default','heun'), ('jax','heun'), ('default','euler'), ('jax','euler'), ('torch','euler'), ('default','scipy'), ('torch','scipy'), ('jax','scipy')]:
    try:
        c = mk()
        r = c.run(simulation_time=T, step_size=dt, inputs={'a/op/inp': u.copy()}, outputs={'o': 'a/op/x'}, solver=solver, backend=be, verbose=False, in_place=False, clear=True, float_precision='float64', vectorize=True, **({'rtol':1e-8,'atol':1e-10} if solver=='scipy' else {}))
        res[(be, solver)] = r['o'].values
        print(be, solver, r['o'].values[-1])
    except Exception as e:
        print(be, solver, 'EXC', type(e).__name__, str(e)[:200])
