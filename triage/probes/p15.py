import numpy as np, warnings
warnings.simplefilter("ignore")
from pyrates import CircuitTemplate, NodeTemplate, OperatorTemplate, clear
from pyrates.frontend.template.population import PopulationTemplate, Connectivity
def mkop(): return OperatorTemplate('op', equations=["x' = -k*x + inp"], variables={'x': 'variable(1.0)', 'k': 2.0, 'inp': 'input(0.0)'})
# D-28: variable named Catalan
op = OperatorTemplate('op', equations=["x' = -Catalan*x"], variables={'x': 'variable(1.0)', 'Catalan': 3.0})
c = CircuitTemplate('c', nodes={'a': NodeTemplate('n', operators=[op])})
try:
    f, args, names, smap = c.get_run_func('f', step_size=1e-3, verbose=False, vectorize=False, float_precision='float64', in_place=False, clear=True)
    print('D-28', names, f(0, np.array([1.0]), *args[2:]), 'expected -3')
except Exception as e: print('D-28 EXC', type(e).__name__, str(e)[:100])
