import numpy as np, warnings
warnings.simplefilter("ignore")
from pyrates import CircuitTemplate, NodeTemplate, OperatorTemplate, clear
def mk():
    op = OperatorTemplate('op', equations=["x' = -x"], variables={'x': 'variable(1.0)'})
    return CircuitTemplate('c', nodes={'a': NodeTemplate('n', operators=[op])})
dt=0.1
for be in ('default','jax'):
  for ipv in (True, False):
    try:
        c = mk()
        r = c.run(simulation_time=0.3, step_size=dt, outputs={'o': 'a/op/x'}, solver='heun', backend=be, verbose=False, in_place=False, clear=True, float_precision='float64', vectorize=False, inplace_vectorfield=ipv)
        print(be, ipv, r['o'].values, 'heun factor', 1-dt+dt*dt/2, 'buggy factor', 1-dt+dt*dt)
    except Exception as e:
        print(be, ipv, 'EXC', type(e).__name__, str(e)[:150])
