"""Path-sensitive evaluation of code-emitting functions: which text templates does a function hand to its sink (`add_code_line`,
`return`) on each path, with local string variables spliced in.

A template is text with ⟨expr⟩ holes (expr = ast.unparse of the hole).  Recognised spellings of a string value: f-string,
string constant, concatenation with `+`, `"...{}...".format(a, b)` / `"{x}".format(x=a)`, `"...%s..." % (a, b)`, `str(x)`, a
local name bound earlier on the same path to one of these.
"""
from __future__ import annotations

import ast
import re
from typing import Dict, List, Optional, Tuple

from . import AnalysisError
from .util import call_name, enumerate_paths


def template_text(e: ast.AST, env: Dict[str, ast.AST], depth: int = 0) -> Optional[str]:
    if depth > 8:
        return None
    if isinstance(e, ast.Constant) and isinstance(e.value, str):
        return e.value
    if isinstance(e, ast.Name) and e.id in env:
        return template_text(env[e.id], env, depth + 1)
    if isinstance(e, ast.JoinedStr):
        parts = []
        for v in e.values:
            if isinstance(v, ast.Constant):
                parts.append(str(v.value))
            else:
                parts.append(_hole(v.value, env, depth))
        return "".join(parts)
    if isinstance(e, ast.BinOp) and isinstance(e.op, ast.Add):
        l, r = template_text(e.left, env, depth + 1), template_text(e.right, env, depth + 1)
        if l is None and _is_str_call(e.left):
            l = _hole(e.left.args[0], env, depth)
        if r is None and _is_str_call(e.right):
            r = _hole(e.right.args[0], env, depth)
        if l is None and r is not None and isinstance(e.left, ast.Name):
            l = "⟨" + e.left.id + "⟩"
        if r is None and l is not None and isinstance(e.right, ast.Name):
            r = "⟨" + e.right.id + "⟩"
        return l + r if l is not None and r is not None else None
    if isinstance(e, ast.Call) and isinstance(e.func, ast.Attribute) and e.func.attr == "format":
        base = template_text(e.func.value, env, depth + 1)
        if base is None or any(isinstance(a, ast.Starred) for a in e.args) or any(k.arg is None for k in e.keywords):
            return None
        pos = list(e.args)
        kw = {k.arg: k.value for k in e.keywords}
        auto = [0]

        def sub(m):
            field = m.group(1)
            name = re.split(r"[!:]", field, 1)[0]
            if name == "":
                i = auto[0]
                auto[0] += 1
                return _hole(pos[i], env, depth) if i < len(pos) else "⟨?⟩"
            if name.isdigit():
                return _hole(pos[int(name)], env, depth) if int(name) < len(pos) else "⟨?⟩"
            return _hole(kw[name], env, depth) if name in kw else "⟨?⟩"
        return re.sub(r"\{([^{}]*)\}", sub, base.replace("{{", "\x00").replace("}}", "\x01")).replace("\x00", "{").replace("\x01", "}")
    if isinstance(e, ast.BinOp) and isinstance(e.op, ast.Mod):
        base = template_text(e.left, env, depth + 1)
        if base is None:
            return None
        args = list(e.right.elts) if isinstance(e.right, ast.Tuple) else [e.right]
        it = iter(args)

        def sub(m):
            a = next(it, None)
            return _hole(a, env, depth) if a is not None else "⟨?⟩"
        return re.sub(r"%[sdrfg]", sub, base)
    return None


def _is_str_call(e) -> bool:
    return isinstance(e, ast.Call) and isinstance(e.func, ast.Name) and e.func.id in ("str", "repr") and len(e.args) == 1


def _hole(v: ast.AST, env, depth) -> str:
    if isinstance(v, ast.Name) and v.id in env:
        inner = template_text(env[v.id], env, depth + 1)
        if inner is not None:
            return inner
        if isinstance(env[v.id], ast.Name) and depth < 8:
            return _hole(env[v.id], env, depth + 1)
    if isinstance(v, (ast.JoinedStr,)):
        inner = template_text(v, env, depth + 1)
        if inner is not None:
            return inner
    return "⟨" + ast.unparse(v) + "⟩"


class Emission:
    __slots__ = ("stmt", "template", "env", "kind", "arg")

    def __init__(self, stmt, template, env, kind, arg):
        self.stmt, self.template, self.env, self.kind, self.arg = stmt, template, env, kind, arg


def emissions(ctx, f, *, sinks=("add_code_line",), returns=False, max_paths=4000):
    """[(decisions, emissions, path_text)] for every non-raising path of f.  decisions = [(if-statement, taken branch is 'true')];
    an emission whose argument is not a recognisable string gets template None (the caller decides whether that is an error)."""
    cfg = ctx.cfg(f)
    out = []
    paths = enumerate_paths(cfg)
    if len(paths) > max_paths:
        raise AnalysisError(f"{f.qual}: too many paths ({len(paths)}) for the template evaluation")
    for path in paths:
        if path[-1] is not cfg.EXIT:
            continue
        env: Dict[str, ast.AST] = {}
        decisions, lines = [], []
        for k, st in enumerate(path):
            if isinstance(st, ast.If) and k + 1 < len(path):
                labels = cfg.g[st][path[k + 1]]["labels"]
                decisions.append((st, "true" in labels))
            elif isinstance(st, ast.Assign) and len(st.targets) == 1 and isinstance(st.targets[0], ast.Name):
                # splice what is known now (a later re-binding must not change an earlier value)
                env = dict(env)
                nm = st.targets[0].id
                val = _freeze(st.value, env)
                # `x = f"{x}{idx}"` with a non-template x: keep the old value apart (x′) so the name does not refer to itself
                if any(isinstance(n, ast.Name) and n.id == nm and isinstance(n.ctx, ast.Load) for n in ast.walk(val)):
                    class _R(ast.NodeTransformer):
                        def visit_Name(self, n):
                            return ast.Name(id=nm + "′", ctx=n.ctx) if n.id == nm and isinstance(n.ctx, ast.Load) else n
                    if nm in env:
                        env[nm + "′"] = env[nm]
                    val = _R().visit(val)
                env[nm] = val
            elif isinstance(st, ast.AugAssign) and isinstance(st.target, ast.Name) and isinstance(st.op, ast.Add):
                env = dict(env)
                prev = env.get(st.target.id, ast.Name(id=st.target.id, ctx=ast.Load()))
                env[st.target.id] = ast.BinOp(left=prev, op=ast.Add(), right=_freeze(st.value, env))
            if isinstance(st, ast.Return) and returns and st.value is not None:
                lines.append(Emission(st, template_text(st.value, env), env, "return", st.value))
            elif isinstance(st, ast.stmt) and not isinstance(st, (ast.For, ast.While, ast.With, ast.Try, ast.If, ast.FunctionDef, ast.ClassDef)):
                for c in ast.walk(st):
                    if isinstance(c, ast.Call) and call_name(c) in sinks and c.args:
                        lines.append(Emission(st, template_text(c.args[0], env), env, call_name(c), c.args[0]))
        out.append((decisions, lines, cfg.path_str(path)))
    return out


def _freeze(v: ast.AST, env):
    """Replace names that are known string templates by their current value (so that later re-bindings do not leak back)."""
    class T(ast.NodeTransformer):
        def visit_Name(self, n):
            if isinstance(n.ctx, ast.Load) and n.id in env and template_text(env[n.id], env) is not None:
                return env[n.id]
            return n
    import copy
    try:
        return T().visit(copy.deepcopy(_strip(v)))
    except RecursionError:
        return v


def _strip(v):
    """deepcopy-safe copy source: drop parent links"""
    from .inline import clone
    return clone(v)
