"""Source model: modules, imports, classes (with C3 MRO), functions, parent links.

Decides nothing by itself; every rule queries it.  Built fresh from the repository's working
tree on every run (no on-disk cache).
"""
from __future__ import annotations

import ast
import os
from dataclasses import dataclass, field
from typing import Dict, Iterator, List, Optional, Tuple, Union

from . import AnalysisError


# --------------------------------------------------------------------------------------------
# records
# --------------------------------------------------------------------------------------------

@dataclass
class Module:
    name: str                      # dotted, e.g. pyrates.ir.circuit
    path: str                      # absolute
    rel: str                       # relative to repo root, e.g. pyrates/ir/circuit.py
    tree: ast.Module
    source: str
    is_pkg: bool
    imports: Dict[str, Tuple[str, Optional[str]]] = field(default_factory=dict)
    classes: Dict[str, "ClassInfo"] = field(default_factory=dict)
    functions: Dict[str, "FunctionInfo"] = field(default_factory=dict)   # module-level only
    assigns: Dict[str, List[ast.stmt]] = field(default_factory=dict)      # module-level name -> stmts

    def __hash__(self):
        return hash(self.name)

    def __repr__(self):
        return f"<Module {self.name}>"


@dataclass
class ClassInfo:
    name: str
    module: Module
    node: ast.ClassDef
    base_exprs: List[ast.expr]
    bases: List[Union["ClassInfo", str]] = field(default_factory=list)
    methods: Dict[str, "FunctionInfo"] = field(default_factory=dict)
    attrs: Dict[str, ast.expr] = field(default_factory=dict)             # class-level assignments
    mro: List["ClassInfo"] = field(default_factory=list)

    @property
    def qual(self):
        return f"{self.module.rel}::{self.name}"

    def __hash__(self):
        return hash((self.module.name, self.name))

    def __eq__(self, other):
        return isinstance(other, ClassInfo) and (self.module.name, self.name) == (other.module.name, other.name)

    def __repr__(self):
        return f"<Class {self.module.name}.{self.name}>"


@dataclass
class FunctionInfo:
    name: str
    qualname: str                  # Class.method / func / outer.<locals>.inner
    module: Module
    node: Union[ast.FunctionDef, ast.AsyncFunctionDef]
    cls: Optional[ClassInfo] = None
    parent: Optional["FunctionInfo"] = None
    nested: Dict[str, "FunctionInfo"] = field(default_factory=dict)

    @property
    def qual(self):
        return f"{self.module.rel}::{self.qualname}"

    @property
    def is_static(self):
        return any(isinstance(d, ast.Name) and d.id == "staticmethod" for d in self.node.decorator_list)

    @property
    def is_classmethod(self):
        return any(isinstance(d, ast.Name) and d.id == "classmethod" for d in self.node.decorator_list)

    @property
    def is_property(self):
        return any(isinstance(d, ast.Name) and d.id == "property" for d in self.node.decorator_list)

    @property
    def params(self) -> List[str]:
        a = self.node.args
        out = [x.arg for x in a.posonlyargs + a.args]
        if a.vararg:
            out.append(a.vararg.arg)
        out += [x.arg for x in a.kwonlyargs]
        if a.kwarg:
            out.append(a.kwarg.arg)
        return out

    @property
    def self_name(self) -> Optional[str]:
        if self.cls is None or self.is_static:
            return None
        a = self.node.args
        pos = a.posonlyargs + a.args
        return pos[0].arg if pos else None

    def loc(self, node: Optional[ast.AST] = None) -> str:
        n = node if node is not None else self.node
        return f"{self.module.rel}:{getattr(n, 'lineno', '?')}"

    def __hash__(self):
        return hash((self.module.name, self.qualname))

    def __eq__(self, other):
        return isinstance(other, FunctionInfo) and (self.module.name, self.qualname) == (other.module.name, other.qualname)

    def __repr__(self):
        return f"<Function {self.module.rel}::{self.qualname}>"


# --------------------------------------------------------------------------------------------
# helpers on raw ast
# --------------------------------------------------------------------------------------------

def set_parents(tree: ast.AST) -> None:
    for node in ast.walk(tree):
        for child in ast.iter_child_nodes(node):
            child._parent = node  # type: ignore[attr-defined]
    tree._parent = None  # type: ignore[attr-defined]


def parent(node: ast.AST) -> Optional[ast.AST]:
    return getattr(node, "_parent", None)


def ancestors(node: ast.AST) -> Iterator[ast.AST]:
    p = parent(node)
    while p is not None:
        yield p
        p = parent(p)


def enclosing_stmt(node: ast.AST) -> Optional[ast.stmt]:
    n = node
    while n is not None and not isinstance(n, ast.stmt):
        n = parent(n)
    return n


def norm(node: ast.AST, limit: int = 160) -> str:
    """Normalised text of a node: formatting-independent, used as the construct key."""
    if isinstance(node, (ast.For, ast.AsyncFor)):
        s = f"for {ast.unparse(node.target)} in {ast.unparse(node.iter)}:"
    elif isinstance(node, ast.While):
        s = f"while {ast.unparse(node.test)}:"
    elif isinstance(node, ast.If):
        s = f"if {ast.unparse(node.test)}:"
    elif isinstance(node, (ast.With, ast.AsyncWith)):
        s = "with " + ", ".join(ast.unparse(i) for i in node.items) + ":"
    elif isinstance(node, ast.Try):
        s = "try:"
    elif isinstance(node, (ast.FunctionDef, ast.AsyncFunctionDef)):
        s = f"def {node.name}(...)"
    elif isinstance(node, ast.ClassDef):
        s = f"class {node.name}"
    else:
        s = ast.unparse(node)
    s = " ".join(s.split())
    return s if len(s) <= limit else s[:limit] + "…"


def walk_shallow(node: ast.AST, *, into_lambdas: bool = True) -> Iterator[ast.AST]:
    """Walk a function body without descending into nested function / class definitions."""
    stack = list(ast.iter_child_nodes(node))
    while stack:
        n = stack.pop()
        yield n
        if isinstance(n, (ast.FunctionDef, ast.AsyncFunctionDef, ast.ClassDef)):
            continue
        if isinstance(n, ast.Lambda) and not into_lambdas:
            continue
        stack.extend(ast.iter_child_nodes(n))


def dotted(node: ast.AST) -> Optional[str]:
    """`a.b.c` -> 'a.b.c' for Name/Attribute chains, else None."""
    parts = []
    while isinstance(node, ast.Attribute):
        parts.append(node.attr)
        node = node.value
    if isinstance(node, ast.Name):
        parts.append(node.id)
        return ".".join(reversed(parts))
    return None


def const_str(node: ast.AST) -> Optional[str]:
    if isinstance(node, ast.Constant) and isinstance(node.value, str):
        return node.value
    return None


# --------------------------------------------------------------------------------------------
# the repository model
# --------------------------------------------------------------------------------------------

class Repo:
    def __init__(self, root: str, package: str = "pyrates"):
        self.root = os.path.abspath(root)
        self.package = package
        self.modules: Dict[str, Module] = {}
        self.by_rel: Dict[str, Module] = {}
        self.functions: Dict[str, FunctionInfo] = {}       # key: rel::qualname
        self.classes: Dict[str, ClassInfo] = {}            # key: rel::Name
        self._load()
        self._link()

    # ---- loading ----------------------------------------------------------------------------
    def _load(self):
        pkg_root = os.path.join(self.root, self.package)
        if not os.path.isdir(pkg_root):
            raise AnalysisError(f"package directory {pkg_root} not found")
        for dirpath, dirnames, filenames in os.walk(pkg_root):
            dirnames[:] = sorted(d for d in dirnames if d != "__pycache__")
            for fn in sorted(filenames):
                if not fn.endswith(".py"):
                    continue
                path = os.path.join(dirpath, fn)
                rel = os.path.relpath(path, self.root)
                parts = rel[:-3].split(os.sep)
                is_pkg = parts[-1] == "__init__"
                if is_pkg:
                    parts = parts[:-1]
                name = ".".join(parts)
                with open(path, "r", encoding="utf-8") as f:
                    src = f.read()
                try:
                    tree = ast.parse(src, filename=path)
                except SyntaxError as e:
                    raise AnalysisError(f"{rel}: does not parse: {e}")
                set_parents(tree)
                m = Module(name=name, path=path, rel=rel.replace(os.sep, "/"), tree=tree, source=src, is_pkg=is_pkg)
                self.modules[name] = m
                self.by_rel[m.rel] = m
        for m in self.modules.values():
            self._index_module(m)

    def _abs_import(self, m: Module, level: int, mod: Optional[str]) -> str:
        if level == 0:
            return mod or ""
        base = m.name.split(".")
        if not m.is_pkg:
            base = base[:-1]
        if level > 1:
            base = base[: len(base) - (level - 1)]
        if mod:
            base = base + mod.split(".")
        return ".".join(base)

    def _index_module(self, m: Module):
        # imports anywhere in the module (function-level imports are recorded in the module table too;
        # PyRates uses them for optional dependencies and the names do not clash)
        for node in ast.walk(m.tree):
            if isinstance(node, ast.Import):
                for a in node.names:
                    local = a.asname or a.name.split(".")[0]
                    target = a.name if a.asname else a.name.split(".")[0]
                    m.imports.setdefault(local, (target, None))
            elif isinstance(node, ast.ImportFrom):
                src = self._abs_import(m, node.level, node.module)
                for a in node.names:
                    if a.name == "*":
                        m.imports.setdefault("*" + src, (src, "*"))
                    else:
                        m.imports.setdefault(a.asname or a.name, (src, a.name))
        for st in m.tree.body:
            self._index_stmt(m, st)

    def _index_stmt(self, m: Module, st: ast.stmt):
        if isinstance(st, (ast.FunctionDef, ast.AsyncFunctionDef)):
            fi = self._make_func(m, st, None, None, st.name)
            m.functions[st.name] = fi
        elif isinstance(st, ast.ClassDef):
            ci = ClassInfo(name=st.name, module=m, node=st, base_exprs=list(st.bases))
            m.classes[st.name] = ci
            self.classes[ci.qual] = ci
            for b in st.body:
                if isinstance(b, (ast.FunctionDef, ast.AsyncFunctionDef)):
                    fi = self._make_func(m, b, ci, None, f"{st.name}.{b.name}")
                    # property setters etc. share a name: keep the first (getter) unless absent
                    ci.methods.setdefault(b.name, fi)
                elif isinstance(b, ast.Assign):
                    for t in b.targets:
                        if isinstance(t, ast.Name):
                            ci.attrs[t.id] = b.value
                elif isinstance(b, ast.AnnAssign) and isinstance(b.target, ast.Name) and b.value is not None:
                    ci.attrs[b.target.id] = b.value
        elif isinstance(st, (ast.Assign, ast.AnnAssign, ast.AugAssign)):
            targets = st.targets if isinstance(st, ast.Assign) else [st.target]
            for t in targets:
                for n in ast.walk(t):
                    if isinstance(n, ast.Name):
                        m.assigns.setdefault(n.id, []).append(st)
        elif isinstance(st, (ast.If, ast.Try)):
            for sub in ast.iter_child_nodes(st):
                if isinstance(sub, ast.stmt):
                    self._index_stmt(m, sub)
                elif isinstance(sub, ast.ExceptHandler):
                    for s2 in sub.body:
                        self._index_stmt(m, s2)

    def _make_func(self, m, node, cls, par, qualname) -> FunctionInfo:
        fi = FunctionInfo(name=node.name, qualname=qualname, module=m, node=node, cls=cls, parent=par)
        node._fi = fi  # type: ignore[attr-defined]
        self.functions.setdefault(fi.qual, fi)
        for sub in walk_shallow(node):
            if isinstance(sub, (ast.FunctionDef, ast.AsyncFunctionDef)):
                # direct nested def (walk_shallow does not descend into it)
                f2 = self._make_func(m, sub, cls if False else None, fi, f"{qualname}.<locals>.{sub.name}")
                fi.nested[sub.name] = f2
        return fi

    # ---- linking ----------------------------------------------------------------------------
    def _link(self):
        for ci in self.classes.values():
            ci.bases = []
            for b in ci.base_exprs:
                r = self.resolve_expr(ci.module, b)
                ci.bases.append(r if isinstance(r, ClassInfo) else (dotted(b) or ast.unparse(b)))
        for ci in self.classes.values():
            ci.mro = self._c3(ci, ())

    def _c3(self, ci: ClassInfo, seen) -> List[ClassInfo]:
        if ci in seen:
            return [ci]
        seqs = [self._c3(b, seen + (ci,)) for b in ci.bases if isinstance(b, ClassInfo)]
        seqs.append([b for b in ci.bases if isinstance(b, ClassInfo)])
        res = [ci]
        seqs = [list(s) for s in seqs if s]
        while seqs:
            for s in seqs:
                head = s[0]
                if not any(head in t[1:] for t in seqs):
                    break
            else:
                head = seqs[0][0]     # inconsistent hierarchy: fall back to DFS order
            res.append(head)
            for s in seqs:
                if s and s[0] == head:
                    del s[0]
            seqs = [s for s in seqs if s]
        out = []
        for c in res:
            if c not in out:
                out.append(c)
        return out

    # ---- resolution -------------------------------------------------------------------------
    def resolve_name(self, m: Module, name: str, _depth: int = 0):
        """Resolve a module-level name to ClassInfo | FunctionInfo | Module | None."""
        if _depth > 8:
            return None
        if name in m.classes:
            return m.classes[name]
        if name in m.functions:
            return m.functions[name]
        if name in m.imports:
            src, sym = m.imports[name]
            if sym is None:
                return self.modules.get(src)
            tm = self.modules.get(src)
            if tm is None:
                return None
            sub = self.modules.get(f"{src}.{sym}")
            r = self.resolve_name(tm, sym, _depth + 1)
            return r if r is not None else sub
        for key, (src, sym) in m.imports.items():
            if sym == "*":
                tm = self.modules.get(src)
                if tm is not None:
                    r = self.resolve_name(tm, name, _depth + 1)
                    if r is not None:
                        return r
        return None

    def resolve_expr(self, m: Module, e: ast.expr):
        if isinstance(e, ast.Name):
            return self.resolve_name(m, e.id)
        if isinstance(e, ast.Attribute):
            base = self.resolve_expr(m, e.value)
            if isinstance(base, Module):
                r = self.resolve_name(base, e.attr)
                if r is not None:
                    return r
                return self.modules.get(f"{base.name}.{e.attr}")
            if isinstance(base, ClassInfo):
                return self.lookup_method(base, e.attr)
        return None

    def external_name(self, m: Module, e: ast.expr) -> Optional[str]:
        """Dotted external name of an expression such as `np.zeros` -> 'numpy.zeros', or None."""
        d = dotted(e)
        if d is None:
            return None
        head, *rest = d.split(".")
        if head in m.imports:
            src, sym = m.imports[head]
            if src.split(".")[0] == self.package:
                return None
            base = src if sym is None else f"{src}.{sym}"
            return ".".join([base] + rest)
        return None

    # ---- class queries ----------------------------------------------------------------------
    def lookup_method(self, ci: ClassInfo, name: str, *, after: Optional[ClassInfo] = None) -> Optional[FunctionInfo]:
        mro = ci.mro
        if after is not None and after in mro:
            mro = mro[mro.index(after) + 1:]
        for c in mro:
            if name in c.methods:
                return c.methods[name]
        return None

    def lookup_attr(self, ci: ClassInfo, name: str) -> Optional[Tuple[ClassInfo, ast.expr]]:
        for c in ci.mro:
            if name in c.attrs:
                return c, c.attrs[name]
        return None

    def subclasses(self, ci: ClassInfo, *, strict: bool = False) -> List[ClassInfo]:
        out = [c for c in self.classes.values() if ci in c.mro and (not strict or c != ci)]
        return sorted(out, key=lambda c: (c.module.rel, c.name))

    def get_class(self, rel: str, name: str) -> ClassInfo:
        ci = self.classes.get(f"{rel}::{name}")
        if ci is None:
            raise AnalysisError(f"anchor vanished: class {name} in {rel}")
        return ci

    def get_func(self, rel: str, qualname: str) -> FunctionInfo:
        fi = self.functions.get(f"{rel}::{qualname}")
        if fi is None:
            raise AnalysisError(f"anchor vanished: function {qualname} in {rel}")
        return fi

    def find_func(self, rel: str, qualname: str) -> Optional[FunctionInfo]:
        return self.functions.get(f"{rel}::{qualname}")

    def get_module(self, rel: str) -> Module:
        m = self.by_rel.get(rel)
        if m is None:
            raise AnalysisError(f"anchor vanished: module {rel}")
        return m

    def all_functions(self, rels: Optional[List[str]] = None) -> List[FunctionInfo]:
        fs = [f for f in self.functions.values() if rels is None or f.module.rel in rels]
        return sorted(fs, key=lambda f: (f.module.rel, f.node.lineno))

    def enclosing_function(self, node: ast.AST) -> Optional[FunctionInfo]:
        for a in ancestors(node):
            if isinstance(a, (ast.FunctionDef, ast.AsyncFunctionDef)):
                return getattr(a, "_fi", None)
        return None

    def stats(self) -> dict:
        return {
            "modules": len(self.modules),
            "classes": len(self.classes),
            "functions": len(self.functions),
            "lines": sum(m.source.count("\n") + 1 for m in self.modules.values()),
        }
