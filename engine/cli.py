"""`/verif/check <ID> [--tier quick|thorough] [--repo /repo]` — one process per property.

Exit codes (DESIGN §3): 0 held / only known findings; 1 + `VIOLATION property=<id> replay=<path>`;
2 + `ANALYSIS-ERROR` when the checker cannot decide.
"""
from __future__ import annotations

import argparse
import importlib
import json
import os
import sys
import time
import traceback

from . import AnalysisError
from .report import Ctx, load_known, match_known, write_evidence, write_replay, VERIF
from .srcmodel import Repo

COMMON_ASSUMPTIONS = [
    "Python's stdlib `ast` parses the tree exactly as the interpreter that runs PyRates does (same /venv/bin/python 3.12).",
    "The engine's resolver (imports, C3 MRO, constructor origins) over-approximates dynamic dispatch; call sites it "
    "cannot resolve are counted in coverage.call_graph and treated conservatively by the rules that need a callee.",
    "The idiom and exception tables frozen in /verif/rules/*.py were confirmed by reading every instance on the pinned tree.",
    "Library semantics (numpy, sympy, networkx, scipy, copy.deepcopy) are trusted; only PyRates' own source is analysed.",
    "A passing check means none of the enumerated structural ways of breaking the property is present; it does not prove "
    "the behavioural statement (see coverage.explanation for the clauses that are not decided).",
]


def load_property(prop: str):
    try:
        return importlib.import_module(f"rules.{prop.lower()}")
    except ModuleNotFoundError as e:
        if e.name == f"rules.{prop.lower()}":
            raise SystemExit(f"unknown property {prop}")
        raise


def run_property(prop: str, repo_root: str, tier: str, seed: int, *, write=True, evidence_dir=None, quiet=False):
    """Returns (exit_code, violations, known_hits, ctx, error)."""
    t0 = time.time()
    mod = load_property(prop)
    ctx = None
    error = None
    violations, known_hits = [], []
    out = []
    try:
        repo = Repo(repo_root)
        ctx = Ctx(repo, prop, tier=tier, seed=seed)
        rule_errors = []
        rules = list(mod.RULES)
        try:
            from rules._pitfalls_rule import rule as _pitfalls
            rules.append((f"{prop}-RP", _pitfalls, 10))
        except ImportError:
            pass
        for rid, func, floor in rules:
            # a rule that cannot decide (AnalysisError) does not stop the other rules: a violation established independently by
            # another rule is still a violation; only when nothing is violated does the undecided rule make the run exit 2
            try:
                func(ctx, rid)
                if floor:
                    ctx.floor(rid, floor)
            except AnalysisError as e:
                rule_errors.append(f"{rid}: {e}" if not str(e).startswith(rid) else str(e))
        known = load_known()
        seen_keys = set()
        for ob in ctx.obs:
            if ob.status != "violation":
                continue
            if ob.key() in seen_keys:       # one report per (rule, construct)
                continue
            seen_keys.add(ob.key())
            k = match_known(known, prop, ob)
            if k is not None:
                known_hits.append(ob)
                out.append(f"KNOWN-FINDING: property={prop} rule={ob.rule} {ob.construct} @ {ob.loc} — {k.get('what_fails', ob.msg)}")
            else:
                violations.append(ob)
        if rule_errors and not violations:
            error = "; ".join(rule_errors)
        elif rule_errors:
            for e_ in rule_errors:
                out.append(f"ANALYSIS-NOTE property={prop}: rule could not decide: {e_.splitlines()[0]}")
            ctx.notes.append("rules that could not decide on this tree: " + " | ".join(rule_errors))
    except AnalysisError as e:
        error = str(e)
    except Exception as e:     # the checker itself failed: never a VIOLATION
        error = f"checker raised {type(e).__name__}: {e}\n{traceback.format_exc()}"

    extra = {}
    if error is None and tier == "thorough" and hasattr(mod, "thorough_extra"):
        try:
            extra = mod.thorough_extra(ctx) or {}
        except AnalysisError as e:
            error = str(e)
        except Exception as e:
            error = f"thorough stage raised {type(e).__name__}: {e}\n{traceback.format_exc()}"
    if error is None and tier == "thorough":
        try:
            from selftest.battery import run_battery
            res = run_battery(prop, repo_root, seed=seed, cross_twins=True)
            extra["selftest"] = {k: v for k, v in res["summary"].items() if k != "details"}
            extra["selftest"]["failed_details"] = [r for r in res["summary"]["details"] if r["outcome"] in ("missed", "false-alarm")]
            if res["missed"] or res["false_alarms"]:
                error = (f"self-test: rule(s) blind or noisy on scratch variants: missed={res['missed']} "
                         f"false_alarms={res['false_alarms']}")
        except ModuleNotFoundError:
            pass
        except AnalysisError as e:
            error = str(e)

    wall = time.time() - t0
    code = 0
    if error is not None:
        code = 2
        out.append(f"ANALYSIS-ERROR property={prop}: {error.splitlines()[0]}")
        if "\n" in error:
            sys.stderr.write(error + "\n")
    elif violations:
        code = 1
    for ob in violations:
        rp = write_replay(prop, ob) if write else "-"
        out.append(f"VIOLATION property={prop} replay={rp}")
        out.append(f"  rule={ob.rule} at {ob.loc}: {ob.construct}")
        out.append(f"  {ob.msg}")
    if write:
        write_evidence(prop, tier, seed, ctx, getattr(mod, "EXPLANATION", "") + f"  Additionally {prop}-RP: shared pitfall lints (shared mutable fill, stale loop carry, mutable default argument, late-binding closure, loop-scoped value read in a later loop, per-call memo keyed too narrowly, ordered result from set iteration order, deepcopy with a memo shared between loop iterations, float quotient truncated to an integer, absolute tolerance with an implicit relative one) over the anchored files.", getattr(mod, "RULE_TEXT", ""),
                       COMMON_ASSUMPTIONS + list(getattr(mod, "ASSUMPTIONS", [])), wall,
                       violations if error is None else [], known_hits, extra=extra, error=error,
                       out_dir=evidence_dir)
    if not quiet:
        n_ok = sum(1 for o in (ctx.obs if ctx else []) if o.status == "ok")
        n_all = sum(1 for o in (ctx.obs if ctx else []) if o.status in ("ok", "violation"))
        out.append(f"[{prop}] tier={tier} obligations={n_all} discharged={n_ok} known={len(known_hits)} "
                   f"new_violations={len(violations)} wall={wall:.2f}s exit={code}")
        print("\n".join(out))
    return code, violations, known_hits, ctx, error


def main(argv=None):
    ap = argparse.ArgumentParser(prog="check")
    ap.add_argument("property")
    ap.add_argument("--tier", default=os.environ.get("VERIF_TIER", "quick"), choices=["quick", "thorough"])
    ap.add_argument("--repo", default=os.environ.get("VERIF_REPO", "/repo"))
    ap.add_argument("--replay", default=None, help="print a recorded violation")
    ap.add_argument("--list", action="store_true", help="print every obligation")
    ap.add_argument("--no-write", action="store_true")
    args = ap.parse_args(argv)
    if args.replay:
        with open(args.replay) as f:
            print(json.dumps(json.load(f), indent=1))
        return 0
    seed = int(os.environ.get("VERIF_SEED", "0") or 0)
    code, violations, known, ctx, error = run_property(args.property.upper(), args.repo, args.tier, seed,
                                                       write=not args.no_write)
    if args.list and ctx is not None:
        for o in ctx.obs:
            print(f"  {o.status:9s} {o.rule:8s} {o.loc:45s} {o.construct.split('::', 1)[1]}\n             {o.msg}")
    return code


if __name__ == "__main__":
    sys.exit(main())
