"""Resolved call graph (DESIGN §2): callees are resolved through MRO, imports and local
constructor origins, never matched by text.  Unresolved call sites are counted.
"""
from __future__ import annotations

import ast
from typing import Dict, Iterable, List, Optional, Set, Tuple

from .srcmodel import Repo, FunctionInfo, ClassInfo, Module, walk_shallow, dotted, parent

# attribute calls on builtin containers / strings / numpy etc.  Never resolved by method name.
BUILTIN_METHODS = {
    "append", "extend", "update", "pop", "popitem", "clear", "insert", "remove", "setdefault", "add", "discard",
    "sort", "reverse", "copy", "items", "keys", "values", "get", "split", "join", "replace", "find", "index",
    "startswith", "endswith", "strip", "format", "count", "lower", "upper", "squeeze", "reshape", "flatten",
    "tolist", "astype", "any", "all", "sum", "mean", "max", "min", "round", "encode", "decode", "write", "read",
    "close", "union", "intersection", "difference", "issubset", "lstrip", "rstrip", "rsplit", "isnumeric",
    "isdigit", "is_integer", "writelines", "readlines", "ravel", "nonzero", "transpose", "fill", "item",
}


import builtins as _b
_BUILTINS = set(dir(_b))


class CallGraph:
    def __init__(self, repo: Repo):
        self.repo = repo
        self.calls: Dict[FunctionInfo, List[Tuple[ast.Call, List[FunctionInfo], str]]] = {}
        self.resolved = 0
        self.unresolved = 0
        self.external = 0
        self._local_types_cache: Dict[FunctionInfo, Dict[str, Set[ClassInfo]]] = {}
        for f in repo.functions.values():
            self.calls[f] = []
            for n in walk_shallow(f.node):
                if isinstance(n, ast.Call):
                    targets, how = self.resolve_call(f, n)
                    self.calls[f].append((n, targets, how))
                    if targets:
                        self.resolved += 1
                    elif how == "external":
                        self.external += 1
                    else:
                        self.unresolved += 1

    # ---- local class inference ----------------------------------------------------------------
    def local_types(self, f: FunctionInfo) -> Dict[str, Set[ClassInfo]]:
        if f in self._local_types_cache:
            return self._local_types_cache[f]
        types: Dict[str, Set[ClassInfo]] = {}
        self._local_types_cache[f] = types
        a = f.node.args
        for arg in a.posonlyargs + a.args + a.kwonlyargs:
            for c in self._ann_classes(f.module, arg.annotation):
                types.setdefault(arg.arg, set()).add(c)
        if f.cls is not None and f.self_name:
            types.setdefault(f.self_name, set()).add(f.cls)
        for _ in range(2):
            for n in walk_shallow(f.node):
                if isinstance(n, ast.Assign) and len(n.targets) == 1 and isinstance(n.targets[0], ast.Name):
                    for c in self.expr_classes(f, n.value, types):
                        types.setdefault(n.targets[0].id, set()).add(c)
                elif isinstance(n, ast.AnnAssign) and isinstance(n.target, ast.Name):
                    for c in self._ann_classes(f.module, n.annotation):
                        types.setdefault(n.target.id, set()).add(c)
        return types

    def _ann_classes(self, m: Module, ann) -> List[ClassInfo]:
        out = []
        if ann is None:
            return out
        if isinstance(ann, ast.Constant) and isinstance(ann.value, str):
            try:
                ann = ast.parse(ann.value, mode="eval").body
            except SyntaxError:
                return out
        for n in ast.walk(ann):
            if isinstance(n, (ast.Name, ast.Attribute)):
                r = self.repo.resolve_expr(m, n)
                if isinstance(r, ClassInfo):
                    out.append(r)
        return out

    def expr_classes(self, f: FunctionInfo, e: ast.AST, types=None) -> Set[ClassInfo]:
        """Classes an expression may evaluate to an *instance* of (best effort)."""
        types = types if types is not None else self.local_types(f)
        out: Set[ClassInfo] = set()
        if isinstance(e, ast.Name):
            return set(types.get(e.id, ()))
        if isinstance(e, ast.IfExp):
            return self.expr_classes(f, e.body, types) | self.expr_classes(f, e.orelse, types)
        if isinstance(e, ast.Call):
            fn = e.func
            d = dotted(fn)
            if d in ("deepcopy", "copy.deepcopy", "copy", "copy.copy") and e.args:
                return self.expr_classes(f, e.args[0], types)
            r = self.repo.resolve_expr(f.module, fn) if isinstance(fn, (ast.Name, ast.Attribute)) else None
            if isinstance(r, ClassInfo):
                return {r}
            # self.__class__(...) / type(self)(...)
            if isinstance(fn, ast.Attribute) and fn.attr == "__class__":
                return self.expr_classes(f, fn.value, types)
            if isinstance(fn, ast.Call) and isinstance(fn.func, ast.Name) and fn.func.id == "type" and fn.args:
                return self.expr_classes(f, fn.args[0], types)
            # method whose return annotation names a repo class
            for t in self.resolve_call(f, e)[0]:
                for c in self._ann_classes(t.module, t.node.returns):
                    out.add(c)
        return out

    # ---- call resolution ------------------------------------------------------------------------
    def resolve_call(self, f: FunctionInfo, call: ast.Call) -> Tuple[List[FunctionInfo], str]:
        fn = call.func
        repo = self.repo
        if isinstance(fn, ast.Name):
            # nested defs of this function or enclosing functions
            g = f
            while g is not None:
                if fn.id in g.nested:
                    return [g.nested[fn.id]], "local-def"
                g = g.parent
            r = repo.resolve_name(f.module, fn.id)
            if isinstance(r, FunctionInfo):
                return [r], "module"
            if isinstance(r, ClassInfo):
                init = repo.lookup_method(r, "__init__")
                return ([init] if init else []), "constructor"
            if fn.id in f.module.imports and f.module.imports[fn.id][0].split(".")[0] != repo.package:
                return [], "external"
            if fn.id in _BUILTINS:
                return [], "external"
            return [], "unresolved-name"
        if isinstance(fn, ast.Attribute):
            v = fn.value
            # super().m()
            if isinstance(v, ast.Call) and isinstance(v.func, ast.Name) and v.func.id == "super" and f.cls is not None:
                outs = []
                for sub in [f.cls] + repo.subclasses(f.cls, strict=True):
                    t = repo.lookup_method(sub, fn.attr, after=f.cls)
                    if t is not None and t not in outs:
                        outs.append(t)
                return outs, "super"
            # module.func / Class.method
            r = repo.resolve_expr(f.module, fn)
            if isinstance(r, FunctionInfo):
                return [r], "qualified"
            if isinstance(r, ClassInfo):
                init = repo.lookup_method(r, "__init__")
                return ([init] if init else []), "constructor"
            if repo.external_name(f.module, fn) is not None:
                return [], "external"
            # receiver with known class(es): dynamic dispatch = lookup in class + overrides in subclasses
            classes = self.expr_classes(f, v)
            if isinstance(v, ast.Attribute) and v.attr == "__class__":
                classes = self.expr_classes(f, v.value)
            if isinstance(v, ast.Name) and f.cls is not None and f.is_classmethod and v.id == (f.node.args.args[0].arg if f.node.args.args else None):
                classes = {f.cls}
            outs: List[FunctionInfo] = []
            for c in classes:
                for sub in [c] + repo.subclasses(c, strict=True):
                    t = repo.lookup_method(sub, fn.attr)
                    if t is not None and t not in outs:
                        outs.append(t)
            if outs:
                return outs, "dispatch"
            if fn.attr in BUILTIN_METHODS:
                return [], "external"
            # by-name fallback: unique method name in the repository
            cands = [c.methods[fn.attr] for c in repo.classes.values() if fn.attr in c.methods]
            if cands:
                return cands, "by-name"
            return [], "unresolved-attr"
        return [], "unresolved-expr"

    # ---- queries ------------------------------------------------------------------------------------
    def callees(self, f: FunctionInfo) -> List[FunctionInfo]:
        out = []
        for _, ts, _ in self.calls.get(f, ()):
            for t in ts:
                if t not in out:
                    out.append(t)
        return out

    def reachable(self, roots: Iterable[FunctionInfo], *, include_nested=True) -> Set[FunctionInfo]:
        seen: Set[FunctionInfo] = set()
        stack = list(roots)
        while stack:
            f = stack.pop()
            if f in seen:
                continue
            seen.add(f)
            stack.extend(self.callees(f))
            if include_nested:
                stack.extend(f.nested.values())
        return seen

    def call_sites_of(self, target: FunctionInfo) -> List[Tuple[FunctionInfo, ast.Call]]:
        out = []
        for f, cs in self.calls.items():
            for call, ts, _ in cs:
                if target in ts:
                    out.append((f, call))
        return out

    def stats(self) -> dict:
        return {"call_sites_resolved": self.resolved, "call_sites_external": self.external,
                "call_sites_unresolved": self.unresolved}
