"""Static-analysis engine for the PyRates property checks (see /verif/DESIGN.md §2).

Nothing in this package imports or executes `pyrates`; everything is decided from the
source text under <repo>/pyrates as parsed by the stdlib `ast` module.
"""


class AnalysisError(Exception):
    """The checker cannot decide (vanished anchor, unrecognised form, instance floor not met).

    Mapped to exit code 2 and an `ANALYSIS-ERROR` line; never to a VIOLATION.
    """
