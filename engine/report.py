"""Obligations, findings, known-findings matching and evidence writing (DESIGN §3, §8)."""
from __future__ import annotations

import ast
import json
import os
import time
from dataclasses import dataclass, field, asdict
from typing import Any, Dict, List, Optional

from . import AnalysisError
from .srcmodel import Repo, FunctionInfo, norm

VERIF = os.path.dirname(os.path.dirname(os.path.abspath(__file__)))


@dataclass
class Ob:
    rule: str
    status: str                 # ok | violation | info
    construct: str              # rel::qualname::normalised statement  (the finding key)
    loc: str                    # file:line
    msg: str
    facts: Dict[str, Any] = field(default_factory=dict)
    nontrivial: bool = True     # needed more than a presence test (path/dataflow/algebra argument)

    def key(self):
        return (self.rule, self.construct)


class Ctx:
    """What a rule sees: the repository model, lazily built graphs, and the obligation sink."""

    def __init__(self, repo: Repo, prop: str, tier: str = "quick", seed: int = 0):
        self.repo = repo
        self.prop = prop
        self.tier = tier
        self.seed = seed
        self.obs: List[Ob] = []
        self._cg = None
        self._cfgs: Dict[FunctionInfo, Any] = {}
        self._rds: Dict[FunctionInfo, Any] = {}
        self.analysed_functions: set = set()
        self.notes: List[str] = []

    # ---- lazily built analyses --------------------------------------------------------------
    @property
    def cg(self):
        if self._cg is None:
            from .callgraph import CallGraph
            self._cg = CallGraph(self.repo)
        return self._cg

    @property
    def effects(self):
        if getattr(self, "_effects", None) is None:
            from .effects import Effects
            self._effects = Effects(self)
        return self._effects

    def cfg(self, f: FunctionInfo):
        if f not in self._cfgs:
            from .cfg import CFG
            self._cfgs[f] = CFG(f.node)
        self.analysed_functions.add(f.qual)
        return self._cfgs[f]

    def rd(self, f: FunctionInfo):
        if f not in self._rds:
            from .dataflow import ReachingDefs
            self._rds[f] = ReachingDefs(self.cfg(f))
        return self._rds[f]

    # ---- obligation sink ----------------------------------------------------------------------
    def _construct(self, f: Optional[FunctionInfo], node, label=None) -> str:
        where = f.qual if f is not None else "?"
        what = label if label is not None else (norm(node) if isinstance(node, ast.AST) else str(node))
        return f"{where}::{what}"

    def _loc(self, f, node):
        if f is None:
            return "?"
        if isinstance(node, ast.AST) and hasattr(node, "lineno"):
            return f"{f.module.rel}:{node.lineno}"
        return f"{f.module.rel}:{f.node.lineno}"

    def add(self, status, rule, f, node, msg, facts=None, label=None, nontrivial=True, construct=None, loc=None):
        if f is not None:
            self.analysed_functions.add(f.qual)
        ob = Ob(rule=rule, status=status, construct=construct or self._construct(f, node, label),
                loc=loc or self._loc(f, node), msg=msg, facts=facts or {}, nontrivial=nontrivial)
        self.obs.append(ob)
        return ob

    def ok(self, rule, f, node, msg, facts=None, label=None, nontrivial=True, **kw):
        return self.add("ok", rule, f, node, msg, facts, label, nontrivial, **kw)

    def violation(self, rule, f, node, msg, facts=None, label=None, **kw):
        return self.add("violation", rule, f, node, msg, facts, label, True, **kw)

    def info(self, rule, f, node, msg, facts=None, label=None, **kw):
        return self.add("info", rule, f, node, msg, facts, label, False, **kw)

    def require(self, cond, msg):
        if not cond:
            raise AnalysisError(msg)

    def floor(self, rule: str, minimum: int, what: str = "instances"):
        n = sum(1 for o in self.obs if o.rule == rule and o.status in ("ok", "violation"))
        if n < minimum:
            raise AnalysisError(f"{rule}: only {n} {what} found, {minimum} were confirmed by hand on the pinned tree "
                                f"(a rule that matches nothing would pass vacuously)")


# --------------------------------------------------------------------------------------------
# known findings
# --------------------------------------------------------------------------------------------

def load_known(path=None) -> List[dict]:
    path = path or os.path.join(VERIF, "known_findings.json")
    if not os.path.exists(path):
        return []
    with open(path) as f:
        data = json.load(f)
    return data.get("findings", [])


def match_known(known: List[dict], prop: str, ob: Ob) -> Optional[dict]:
    for k in known:
        if k.get("status") != "finding":
            continue          # a "fixed" entry suppresses nothing
        if k.get("property") == prop and k.get("rule") == ob.rule and k.get("construct") == ob.construct:
            return k
    return None


# --------------------------------------------------------------------------------------------
# evidence
# --------------------------------------------------------------------------------------------

def write_evidence(prop: str, tier: str, seed: int, ctx: Optional[Ctx], explanation: str, rule_text: str,
                   assumptions: List[str], wall: float, violations: List[Ob], known_hits: List[Ob],
                   extra: Optional[dict] = None, error: Optional[str] = None, out_dir=None):
    out_dir = out_dir or os.path.join(VERIF, "evidence")
    os.makedirs(out_dir, exist_ok=True)
    obs = ctx.obs if ctx is not None else []
    decided = [o for o in obs if o.status in ("ok", "violation")]
    distinct = {o.key() for o in decided if o.nontrivial}
    samples = []
    per_rule_seen: Dict[str, int] = {}
    for o in obs:
        c = per_rule_seen.get(o.rule, 0)
        if c < 3 or o.status == "violation":
            per_rule_seen[o.rule] = c + 1
            samples.append({"rule": o.rule, "status": o.status, "construct": o.construct, "loc": o.loc,
                            "why": o.msg, "facts": o.facts})
    by_rule: Dict[str, Dict[str, int]] = {}
    for o in obs:
        by_rule.setdefault(o.rule, {"ok": 0, "violation": 0, "info": 0})[o.status] += 1
    coverage = {
        "explanation": explanation if not error else f"ANALYSIS-ERROR: {error}\n\n{explanation}",
        "evaluations": max(len(decided), 1),
        "distinct_nontrivial": len(distinct),
        "rule": rule_text,
        "samples": samples or [{"note": "no obligation was generated", "error": error}],
        "obligations": len(decided),
        "discharged": sum(1 for o in decided if o.status == "ok"),
        "known_findings": len(known_hits),
        "new_violations": len(violations),
        "informational": sum(1 for o in obs if o.status == "info"),
        "per_rule": by_rule,
        "functions_analysed": sorted(ctx.analysed_functions) if ctx is not None else [],
        "n_functions_analysed": len(ctx.analysed_functions) if ctx is not None else 0,
        "exhaustive": False,
    }
    if ctx is not None:
        coverage["repo"] = ctx.repo.stats()
        if ctx._cg is not None:
            coverage["call_graph"] = ctx._cg.stats()
        if ctx.notes:
            coverage["notes"] = ctx.notes
    if extra:
        coverage.update(extra)
    ev = {
        "property_id": prop,
        "tier": tier,
        "seed": seed,
        "level": "other",
        "coverage": coverage,
        "assumptions": assumptions,
        "wall_s": round(wall, 3),
        "violations": len(violations),
    }
    path = os.path.join(out_dir, f"{prop}.json")
    with open(path, "w") as f:
        json.dump(ev, f, indent=1, default=str)
    return path


def write_replay(prop: str, ob: Ob, out_dir=None) -> str:
    out_dir = out_dir or os.path.join(VERIF, "evidence", "violations")
    os.makedirs(out_dir, exist_ok=True)
    import hashlib
    h = hashlib.sha1((ob.rule + ob.construct).encode()).hexdigest()[:10]
    path = os.path.join(out_dir, f"{prop}-{ob.rule}-{h}.json")
    with open(path, "w") as f:
        json.dump({"property": prop, **asdict(ob)}, f, indent=1, default=str)
    return path
