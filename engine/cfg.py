"""Statement-level control-flow graph for one function (DESIGN §2).

Nodes are `ast.stmt` objects (compound statements stand for their header: the `if` test, the
`for` iterator/target binding, the `with` items, ...) plus three synthetic nodes ENTRY, EXIT
(normal return) and RAISE (exceptional exit).  Edges carry a label:

    'next'  fall-through          'true' / 'false'  branch of if/while test
    'iter'  loop body entered     'done'            loop exhausted (-> orelse / after loop)
    'exc'   exceptional edge into a handler / to RAISE
    'back'  back edge to a loop header (in addition to the label of the branch that takes it)

Exceptional edges: every statement inside a `try` body gets an 'exc' edge to each handler of
the innermost enclosing try (and to its finally).  Statements outside any try that are `raise`
go to RAISE.  Calls are *not* assumed to raise outside try blocks (rules that care about
"call may raise" say so themselves).
"""
from __future__ import annotations

import ast
from typing import Callable, Dict, Iterable, List, Optional, Set, Tuple

import networkx as nx


class _Syn:
    def __init__(self, name):
        self.name = name

    def __repr__(self):
        return self.name


class CFG:
    def __init__(self, func: ast.AST, never_returns: Optional[Callable[[ast.Call], bool]] = None):
        self.func = func
        self.g = nx.DiGraph()
        self.ENTRY = _Syn("ENTRY")
        self.EXIT = _Syn("EXIT")
        self.RAISE = _Syn("RAISE")
        self.g.add_nodes_from([self.ENTRY, self.EXIT, self.RAISE])
        self._never_returns = never_returns or (lambda call: False)
        self._loop_stack: List[Tuple[ast.stmt, list]] = []     # (header, break-collector)
        self._try_stack: List[dict] = []
        body = func.body if hasattr(func, "body") else []
        ends = self._seq(body, [(self.ENTRY, "next")])
        for src, lab in ends:
            self._edge(src, self.EXIT, lab)
        self._idom = None
        self._ipdom = None

    # ---- construction -----------------------------------------------------------------------
    def _edge(self, a, b, label):
        if self.g.has_edge(a, b):
            self.g[a][b]["labels"].add(label)
        else:
            self.g.add_edge(a, b, labels={label})

    def _connect(self, preds, node):
        self.g.add_node(node)
        for src, lab in preds:
            self._edge(src, node, lab)

    def _exc_targets(self):
        """Where does an exception raised here go?  Handlers of the innermost try, else RAISE."""
        if self._try_stack:
            return self._try_stack[-1]["targets"]
        return [self.RAISE]

    def _seq(self, stmts: List[ast.stmt], preds):
        for st in stmts:
            preds = self._stmt(st, preds)
        return preds

    def _stmt(self, st: ast.stmt, preds):
        self._connect(preds, st)
        if self._try_stack and self._try_stack[-1]["in_body"]:
            for t in self._exc_targets():
                self._edge(st, t, "exc")

        if isinstance(st, ast.If):
            t_out = self._seq(st.body, [(st, "true")])
            f_out = self._seq(st.orelse, [(st, "false")]) if st.orelse else [(st, "false")]
            return t_out + f_out

        if isinstance(st, (ast.For, ast.AsyncFor, ast.While)):
            breaks: list = []
            self._loop_stack.append((st, breaks))
            enter = "iter" if not isinstance(st, ast.While) else "true"
            leave = "done" if not isinstance(st, ast.While) else "false"
            b_out = self._seq(st.body, [(st, enter)])
            for src, lab in b_out:
                self._edge(src, st, lab)        # keep the branch label (true/false/next/...) ...
                self._edge(src, st, "back")     # ... and mark the edge as a back edge
            self._loop_stack.pop()
            infinite = isinstance(st, ast.While) and isinstance(st.test, ast.Constant) and bool(st.test.value)
            after = [] if infinite else [(st, leave)]
            if st.orelse:
                after = self._seq(st.orelse, after)
            return after + breaks

        if isinstance(st, (ast.With, ast.AsyncWith)):
            return self._seq(st.body, [(st, "next")])

        if isinstance(st, ast.Try) or (hasattr(ast, "TryStar") and isinstance(st, getattr(ast, "TryStar"))):
            return self._try(st)

        if isinstance(st, ast.Match):
            outs = []
            for case in st.cases:
                outs += self._seq(case.body, [(st, "true")])
            outs.append((st, "false"))
            return outs

        if isinstance(st, ast.Return):
            self._edge(st, self._finally_or(self.EXIT), "next")
            return []

        if isinstance(st, ast.Raise):
            for t in self._exc_targets():
                self._edge(st, t, "exc")
            return []

        if isinstance(st, ast.Break):
            if self._loop_stack:
                self._loop_stack[-1][1].append((st, "next"))
            return []

        if isinstance(st, ast.Continue):
            if self._loop_stack:
                self._edge(st, self._loop_stack[-1][0], "back")
            return []

        if isinstance(st, ast.Expr) and isinstance(st.value, ast.Call) and self._never_returns(st.value):
            for t in self._exc_targets():
                self._edge(st, t, "exc")
            return []

        return [(st, "next")]

    def _finally_or(self, default):
        # `return` inside try/finally: modelled as going straight to EXIT; the finally body is
        # additionally reachable through its normal edges.  Precise enough for the rules here
        # (PyRates has no return-inside-finally idioms that matter to them).
        return default

    def _try(self, st):
        handler_heads = []
        for h in st.handlers:
            self.g.add_node(h)
            handler_heads.append(h)
        targets = list(handler_heads)
        # an exception not matched by any handler propagates outward
        catches_all = any(h.type is None or (isinstance(h.type, ast.Name) and h.type.id in ("Exception", "BaseException"))
                          for h in st.handlers)
        outer = self._exc_targets()
        if not catches_all:
            targets = targets + list(outer)
        self._connect([], st)
        self._try_stack.append({"targets": targets, "in_body": True})
        b_out = self._seq(st.body, [(st, "next")])
        self._try_stack.pop()
        if st.orelse:
            b_out = self._seq(st.orelse, b_out)
        outs = list(b_out)
        for h in st.handlers:
            outs += self._seq(h.body, [(h, "next")])
        if st.finalbody:
            outs = self._seq(st.finalbody, outs)
        return outs

    # ---- queries ----------------------------------------------------------------------------
    def stmts(self) -> List[ast.stmt]:
        return [n for n in self.g.nodes if isinstance(n, ast.stmt)]

    def idom(self):
        if self._idom is None:
            self._idom = nx.immediate_dominators(self.g, self.ENTRY)
        return self._idom

    def dominates(self, a, b) -> bool:
        """True iff every path ENTRY -> b passes through a (a == b counts)."""
        idom = self.idom()
        if b not in idom:
            return False      # unreachable
        n = b
        while True:
            if n is a:
                return True
            p = idom.get(n)
            if p is None or p is n:
                return False
            n = p

    def dominators(self, b) -> List:
        idom = self.idom()
        out = []
        n = b
        while n in idom:
            out.append(n)
            p = idom[n]
            if p is n:
                break
            n = p
        return out

    def reachable_avoiding(self, start, goal, avoid: Callable[[object], bool], *, include_start=False) -> Optional[List]:
        """A path start -> goal none of whose *intermediate* nodes satisfies `avoid`; None if none."""
        seen = {start}
        stack = [(start, [start])]
        while stack:
            n, path = stack.pop()
            for s in self.g.successors(n):
                if s is goal:
                    return path + [s]
                if s in seen or avoid(s):
                    continue
                seen.add(s)
                stack.append((s, path + [s]))
        return None

    def must_pass(self, start, pred: Callable[[object], bool], *, goals=None) -> Optional[List]:
        """None if every path from `start` to a normal EXIT passes a node satisfying pred;
        otherwise a witness path that avoids all such nodes."""
        goals = goals or [self.EXIT]
        for gnode in goals:
            p = self.reachable_avoiding(start, gnode, pred)
            if p is not None:
                return p
        return None

    def successors(self, n, label=None):
        for s in self.g.successors(n):
            if label is None or label in self.g[n][s]["labels"]:
                yield s

    def reachable(self, a, b) -> bool:
        return a is b or nx.has_path(self.g, a, b)

    def reachable_after(self, a, b) -> bool:
        """b reachable from a via at least one edge."""
        return any(s is b or nx.has_path(self.g, s, b) for s in self.g.successors(a))

    def path_str(self, path) -> str:
        def one(n):
            if isinstance(n, _Syn):
                return n.name
            if isinstance(n, ast.ExceptHandler):
                return f"L{n.lineno}:except"
            return f"L{n.lineno}"
        return " -> ".join(one(n) for n in path)


def stmt_of(cfg: CFG, node: ast.AST):
    """CFG node (statement) that contains the expression `node`."""
    n = node
    while n is not None:
        if n in cfg.g:
            return n
        n = getattr(n, "_parent", None)
    return None
