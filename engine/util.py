"""Small AST predicates and path helpers shared by the rules."""
from __future__ import annotations

import ast
from typing import Callable, Iterable, Iterator, List, Optional, Sequence, Tuple

from . import AnalysisError
from .cfg import CFG
from .srcmodel import FunctionInfo, walk_shallow, dotted, parent, ancestors, norm


def is_attr_of(node: ast.AST, base: str, attr: Optional[str] = None) -> bool:
    """`base.attr` (attr None: any attribute of Name base)."""
    return (isinstance(node, ast.Attribute) and isinstance(node.value, ast.Name) and node.value.id == base
            and (attr is None or node.attr == attr))


def calls_in(node: ast.AST, *, shallow=True) -> Iterator[ast.Call]:
    it = walk_shallow(node) if shallow else ast.walk(node)
    for n in it:
        if isinstance(n, ast.Call):
            yield n


def call_name(call: ast.Call) -> Optional[str]:
    """Last component of the callee: `a.b.c(...)` -> 'c', `f(...)` -> 'f'."""
    if isinstance(call.func, ast.Attribute):
        return call.func.attr
    if isinstance(call.func, ast.Name):
        return call.func.id
    return None


def stmts_in(f_or_node) -> Iterator[ast.stmt]:
    node = f_or_node.node if isinstance(f_or_node, FunctionInfo) else f_or_node
    for n in walk_shallow(node):
        if isinstance(n, ast.stmt):
            yield n


def header_nodes(st: ast.stmt) -> Iterator[ast.AST]:
    """All expression nodes evaluated by the CFG node `st` itself (not nested statements)."""
    from .dataflow import header_exprs
    for e in header_exprs(st):
        if isinstance(e, ast.stmt):
            for n in ast.walk(e):
                yield n
        else:
            yield from ast.walk(e)
    if isinstance(st, (ast.For, ast.AsyncFor)):
        yield from ast.walk(st.target)


def stmt_calls(st: ast.stmt) -> List[ast.Call]:
    return [n for n in header_nodes(st) if isinstance(n, ast.Call)]


def enumerate_paths(cfg: CFG, start=None, *, limit=20000, goals=None) -> List[List]:
    """All paths start -> (EXIT | RAISE) that take each back edge at most zero times and enter each
    loop body at most once (i.e. loops are unrolled once: body skipped or executed one time)."""
    start = start if start is not None else cfg.ENTRY
    goals = goals or (cfg.EXIT, cfg.RAISE)
    out: List[List] = []
    stack = [(start, [start])]
    while stack:
        n, path = stack.pop()
        if any(n is g for g in goals):
            out.append(path)
            if len(out) > limit:
                raise AnalysisError(f"path explosion (> {limit}) in {getattr(cfg.func, 'name', '?')}")
            continue
        for s in cfg.g.successors(n):
            labels = cfg.g[n][s]["labels"]
            if "back" in labels:
                # leaving the loop body: continue at the loop's 'done' successors
                for s2 in cfg.g.successors(s):
                    l2 = cfg.g[s][s2]["labels"]
                    if ("done" in l2 or "false" in l2) and s2 not in path:
                        stack.append((s2, path + [s2]))
                continue
            if s in path and not any(s is g for g in goals):
                continue
            stack.append((s, path + [s]))
    return out


def single_def_value(ctx, f: FunctionInfo, name_node: ast.Name) -> Optional[ast.AST]:
    """If exactly one definition of the name reaches this use and it is a plain `name = expr`, return expr."""
    from .dataflow import assigned_value
    defs = ctx.rd(f).defs_reaching(name_node)
    if len(defs) != 1:
        return None
    return assigned_value(defs[0], name_node.id)


def fstring_template(node: ast.AST) -> Optional[str]:
    """Render a JoinedStr / Constant str as text with ⟨expr⟩ holes (expr = ast.unparse of the hole)."""
    if isinstance(node, ast.Constant) and isinstance(node.value, str):
        return node.value
    if isinstance(node, ast.JoinedStr):
        parts = []
        for v in node.values:
            if isinstance(v, ast.Constant):
                parts.append(str(v.value))
            elif isinstance(v, ast.FormattedValue):
                parts.append("⟨" + ast.unparse(v.value) + "⟩")
        return "".join(parts)
    if isinstance(node, ast.BinOp) and isinstance(node.op, ast.Add):
        l, r = fstring_template(node.left), fstring_template(node.right)
        if l is not None and r is not None:
            return l + r
    return None


def fstring_holes(node: ast.AST) -> List[ast.AST]:
    if isinstance(node, ast.JoinedStr):
        return [v.value for v in node.values if isinstance(v, ast.FormattedValue)]
    return []


def get_method(ctx, cls, name: str) -> FunctionInfo:
    m = cls.methods.get(name)
    if m is None:
        raise AnalysisError(f"anchor vanished: method {cls.name}.{name} in {cls.module.rel}")
    return m


def contains(outer: ast.AST, inner: ast.AST) -> bool:
    n = inner
    while n is not None:
        if n is outer:
            return True
        n = parent(n)
    return False


def in_body(loop: ast.stmt, node: ast.AST) -> bool:
    """node lies inside loop.body (not in its orelse / header)."""
    for b in loop.body:
        if contains(b, node):
            return True
    return False


# ------------------------------------------------------------------------------------------------
# normalisation: inline local aliases and trivial helper calls, so that rules see roles instead of local names
# ------------------------------------------------------------------------------------------------

def _reads(e: ast.AST):
    """Names and `name.attr` chains an expression reads."""
    names, attrs = set(), set()
    for n in ast.walk(e):
        if isinstance(n, ast.Name):
            names.add(n.id)
        elif isinstance(n, ast.Attribute):
            d = dotted(n)
            if d:
                attrs.add(d)
    return names, attrs


def _rebinds(st: ast.AST):
    """Names and attribute chains re-bound by statement `st` (element stores do not re-bind)."""
    names, attrs = set(), set()
    targets = []
    if isinstance(st, ast.Assign):
        targets = st.targets
    elif isinstance(st, (ast.AugAssign, ast.AnnAssign)):
        targets = [st.target]
    elif isinstance(st, (ast.For, ast.AsyncFor)):
        targets = [st.target]
    elif isinstance(st, (ast.With, ast.AsyncWith)):
        targets = [i.optional_vars for i in st.items if i.optional_vars is not None]
    for t in targets:
        for x in ([t] if not isinstance(t, (ast.Tuple, ast.List)) else t.elts):
            if isinstance(x, ast.Name):
                names.add(x.id)
            elif isinstance(x, ast.Attribute):
                d = dotted(x)
                if d:
                    attrs.add(d)
            elif isinstance(x, ast.Starred) and isinstance(x.value, ast.Name):
                names.add(x.value.id)
    return names, attrs


def alias_is_stable(ctx, f: FunctionInfo, defstmt, use_node: ast.AST, value: ast.AST) -> bool:
    """May `value` (the right-hand side of `defstmt`) be substituted at `use_node`?  True when nothing `value` reads is
    re-bound on a path from the definition to the use."""
    from .cfg import stmt_of
    cfg = ctx.cfg(f)
    use_st = stmt_of(cfg, use_node)
    if use_st is None or defstmt not in cfg.g:
        return False
    rn, ra = _reads(value)
    for st in cfg.stmts():
        if st is defstmt:
            continue
        wn, wa = _rebinds(st)
        hit = (wn & rn) or any(a == b or b.startswith(a + ".") for a in wa for b in ra)
        if not hit:
            continue
        if st is use_st:
            # the use statement itself re-binds what the alias reads (`self._n = row + 1`): the right-hand side is evaluated first
            continue
        # a re-binding matters only if it can happen after the definition and reach the use WITHOUT passing the definition
        # again (inside a loop the alias is refreshed in every iteration)
        if cfg.reachable_avoiding(defstmt, st, lambda n: False) is not None \
                and cfg.reachable_avoiding(st, use_st, lambda n: n is defstmt) is not None:
            return False
    return True


def _phi(ctx, f, defs, name):
    """(if-statement, definition on the true branch, definition otherwise) for a two-definition merge, else None."""
    a, b = sorted(defs, key=lambda s: (s.lineno, s.col_offset))
    pa, pb = parent(a), parent(b)
    if isinstance(pb, ast.If) and pa is pb:
        if a in pb.body and b in pb.orelse:
            return pb, a, b
        return None
    if isinstance(pb, ast.If) and b in pb.body and not pb.orelse and ctx.cfg(f).dominates(a, pb):
        return pb, b, a
    return None


def inline_locals(ctx, f: FunctionInfo, node: ast.AST, *, depth: int = 6, keep=()) -> ast.AST:
    """Copy of expression `node` in which every local name with exactly one reaching definition `name = <expr>` is replaced by
    <expr> (recursively), provided the alias is stable (see alias_is_stable).  Parameters and names in `keep` stay."""
    import copy as _copy
    from .dataflow import assigned_value
    rd = ctx.rd(f)

    def T(n, d, origin):
        if isinstance(n, ast.Name) and isinstance(n.ctx, ast.Load) and n.id not in keep and d > 0:
            defs = rd.defs_reaching(n) if origin is None else rd.defs_reaching(origin)
            # `origin` is the original (un-copied) node whose position decides which definitions reach; for names that come
            # from an inlined right-hand side the definitions reaching the *defining statement* apply
            if len(defs) == 1 and not isinstance(defs[0], ast.arguments):
                v = assigned_value(defs[0], n.id)
                if v is not None and isinstance(v, (ast.Name, ast.Attribute, ast.Subscript, ast.Call, ast.BinOp, ast.UnaryOp,
                                                    ast.Compare, ast.Constant, ast.IfExp, ast.Tuple, ast.BoolOp, ast.JoinedStr,
                                                    ast.Dict, ast.List, ast.Set, ast.ListComp, ast.DictComp, ast.SetComp)):
                    if alias_is_stable(ctx, f, defs[0], n if origin is None else origin, v):
                        return T(v, d - 1, None)
            elif len(defs) == 2 and all(isinstance(x, ast.Assign) for x in defs):
                # two-way merge: `if c: x = a else: x = b`  or  `x = b; if c: x = a`  ->  (a if c else b)
                phi = _phi(ctx, f, defs, n.id)
                if phi is not None:
                    g, da, db = phi
                    use = n if origin is None else origin
                    va, vb = assigned_value(da, n.id), assigned_value(db, n.id)
                    if va is not None and vb is not None and alias_is_stable(ctx, f, da, use, va) and alias_is_stable(ctx, f, db, use, vb) \
                            and alias_is_stable(ctx, f, da, use, g.test):
                        e = ast.IfExp(test=T(g.test, d - 1, None), body=T(va, d - 1, None), orelse=T(vb, d - 1, None))
                        return ast.copy_location(e, n)
            return _copy.copy(n)
        if not isinstance(n, ast.AST):
            return n
        new = _copy.copy(n)
        for field, val in ast.iter_fields(n):
            if isinstance(val, list):
                setattr(new, field, [T(x, d, None) if isinstance(x, ast.AST) else x for x in val])
            elif isinstance(val, ast.AST):
                setattr(new, field, T(val, d, None))
        return new
    return T(node, depth, None)


def inline_helper_call(ctx, f: FunctionInfo, call: ast.Call) -> Optional[ast.AST]:
    """If `call` resolves to exactly one repository function whose body is a single `return <expr>` (after an optional
    docstring), return <expr> with the parameters replaced by the call's arguments; else None."""
    import copy as _copy
    targets, how = ctx.cg.resolve_call(f, call)
    if len(targets) != 1 or how in ("by-name",):
        return None
    g = targets[0]
    if not g.name.startswith("_") or g.name.startswith("__"):
        return None         # public functions are anchors: rules want to see the call
    body = [s for s in g.node.body if not (isinstance(s, ast.Expr) and isinstance(s.value, ast.Constant))]
    if len(body) != 1 or not isinstance(body[0], ast.Return) or body[0].value is None:
        return None
    params = list(g.params)
    if g.cls is not None and not g.is_static and params:
        params = params[1:]
    if any(isinstance(a, ast.Starred) for a in call.args) or any(k.arg is None for k in call.keywords):
        return None
    binding = {}
    for i, a in enumerate(call.args):
        if i < len(params):
            binding[params[i]] = a
    for k in call.keywords:
        binding[k.arg] = k.value
    # defaults
    a = g.node.args
    pos = [x.arg for x in a.posonlyargs + a.args]
    for i, dflt in enumerate(a.defaults):
        nm = pos[len(pos) - len(a.defaults) + i]
        binding.setdefault(nm, dflt)

    def S(n):
        if isinstance(n, ast.Name) and isinstance(n.ctx, ast.Load) and n.id in binding:
            return _copy.copy(binding[n.id])
        if not isinstance(n, ast.AST):
            return n
        new = _copy.copy(n)
        for field, val in ast.iter_fields(n):
            if isinstance(val, list):
                setattr(new, field, [S(x) if isinstance(x, ast.AST) else x for x in val])
            elif isinstance(val, ast.AST):
                setattr(new, field, S(val))
        return new
    return S(body[0].value)


def normalise(ctx, f: FunctionInfo, node: ast.AST, *, depth: int = 6) -> ast.AST:
    """inline_locals + inline_helper_call, to a fixpoint of at most `depth` rounds."""
    cur = inline_locals(ctx, f, node, depth=depth)
    for _ in range(depth):
        changed = False

        def R(n):
            nonlocal changed
            if isinstance(n, ast.Call):
                e = inline_helper_call(ctx, f, n)
                if e is not None:
                    changed = True
                    return R(e)
            if not isinstance(n, ast.AST):
                return n
            import copy as _copy
            new = _copy.copy(n)
            for field, val in ast.iter_fields(n):
                if isinstance(val, list):
                    setattr(new, field, [R(x) if isinstance(x, ast.AST) else x for x in val])
                elif isinstance(val, ast.AST):
                    setattr(new, field, R(val))
            return new
        cur = R(cur)
        if not changed:
            break
    return cur


def value_sources(ctx, f: FunctionInfo, node: ast.AST, *, limit: int = 400, visited: Optional[list] = None):
    """Everything the value of expression `node` (a node of f's tree) may be computed from, following EVERY reaching definition of
    every local transitively: returns (parameter names, dotted attribute chains such as 'self.nodes', call names).  Over-approximate
    (union over paths) - use it for "derives from X on some path" / "cannot derive from anything but X" arguments.  `visited`, if
    given, receives every expression that was followed (the argument itself and the right-hand sides of the definitions)."""
    from .dataflow import assigned_value
    rd = ctx.rd(f)
    params, attrs, calls = set(), set(), set()
    seen_defs = set()
    work = [node]
    n_steps = 0
    while work:
        n_steps += 1
        if n_steps > limit:
            break
        e = work.pop()
        if visited is not None:
            visited.append(e)
        for x in ast.walk(e):
            if isinstance(x, ast.Attribute):
                d = dotted(x)
                if d:
                    attrs.add(d)
            elif isinstance(x, ast.Call):
                cn = call_name(x)
                if cn:
                    calls.add(cn)
            if not (isinstance(x, ast.Name) and isinstance(x.ctx, ast.Load)):
                continue
            try:
                defs = rd.defs_reaching(x)
            except Exception:
                defs = []
            if not defs and x.id in f.params:
                params.add(x.id)
            for d in defs:
                if isinstance(d, ast.arguments):
                    params.add(x.id)
                    continue
                key = (id(d), x.id)
                if key in seen_defs:
                    continue
                seen_defs.add(key)
                v = assigned_value(d, x.id)
                if v is not None:
                    work.append(v)
                elif isinstance(d, ast.AugAssign):
                    work.append(d.value)
                    work.append(d.target) if not isinstance(d.target, ast.Name) else None
                elif isinstance(d, (ast.For, ast.AsyncFor)):
                    work.append(d.iter)
                elif isinstance(d, ast.Assign):
                    work.append(d.value)
                elif isinstance(d, (ast.With, ast.AsyncWith)):
                    for it in d.items:
                        work.append(it.context_expr)
    return params, attrs, calls
