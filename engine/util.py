"""Small AST predicates and path helpers shared by the rules."""
from __future__ import annotations

import ast
from typing import Callable, Iterable, Iterator, List, Optional, Sequence, Tuple

from . import AnalysisError
from .cfg import CFG
from .srcmodel import FunctionInfo, walk_shallow, dotted, parent, ancestors, norm


def is_attr_of(node: ast.AST, base: str, attr: Optional[str] = None) -> bool:
    """`base.attr` (attr None: any attribute of Name base)."""
    return (isinstance(node, ast.Attribute) and isinstance(node.value, ast.Name) and node.value.id == base
            and (attr is None or node.attr == attr))


def calls_in(node: ast.AST, *, shallow=True) -> Iterator[ast.Call]:
    it = walk_shallow(node) if shallow else ast.walk(node)
    for n in it:
        if isinstance(n, ast.Call):
            yield n


def call_name(call: ast.Call) -> Optional[str]:
    """Last component of the callee: `a.b.c(...)` -> 'c', `f(...)` -> 'f'."""
    if isinstance(call.func, ast.Attribute):
        return call.func.attr
    if isinstance(call.func, ast.Name):
        return call.func.id
    return None


def stmts_in(f_or_node) -> Iterator[ast.stmt]:
    node = f_or_node.node if isinstance(f_or_node, FunctionInfo) else f_or_node
    for n in walk_shallow(node):
        if isinstance(n, ast.stmt):
            yield n


def header_nodes(st: ast.stmt) -> Iterator[ast.AST]:
    """All expression nodes evaluated by the CFG node `st` itself (not nested statements)."""
    from .dataflow import header_exprs
    for e in header_exprs(st):
        if isinstance(e, ast.stmt):
            for n in ast.walk(e):
                yield n
        else:
            yield from ast.walk(e)
    if isinstance(st, (ast.For, ast.AsyncFor)):
        yield from ast.walk(st.target)


def stmt_calls(st: ast.stmt) -> List[ast.Call]:
    return [n for n in header_nodes(st) if isinstance(n, ast.Call)]


def enumerate_paths(cfg: CFG, start=None, *, limit=20000, goals=None) -> List[List]:
    """All paths start -> (EXIT | RAISE) that take each back edge at most zero times and enter each
    loop body at most once (i.e. loops are unrolled once: body skipped or executed one time)."""
    start = start if start is not None else cfg.ENTRY
    goals = goals or (cfg.EXIT, cfg.RAISE)
    out: List[List] = []
    stack = [(start, [start])]
    while stack:
        n, path = stack.pop()
        if any(n is g for g in goals):
            out.append(path)
            if len(out) > limit:
                raise AnalysisError(f"path explosion (> {limit}) in {getattr(cfg.func, 'name', '?')}")
            continue
        for s in cfg.g.successors(n):
            labels = cfg.g[n][s]["labels"]
            if "back" in labels:
                # leaving the loop body: continue at the loop's 'done' successors
                for s2 in cfg.g.successors(s):
                    l2 = cfg.g[s][s2]["labels"]
                    if ("done" in l2 or "false" in l2) and s2 not in path:
                        stack.append((s2, path + [s2]))
                continue
            if s in path and not any(s is g for g in goals):
                continue
            stack.append((s, path + [s]))
    return out


def single_def_value(ctx, f: FunctionInfo, name_node: ast.Name) -> Optional[ast.AST]:
    """If exactly one definition of the name reaches this use and it is a plain `name = expr`, return expr."""
    from .dataflow import assigned_value
    defs = ctx.rd(f).defs_reaching(name_node)
    if len(defs) != 1:
        return None
    return assigned_value(defs[0], name_node.id)


def fstring_template(node: ast.AST) -> Optional[str]:
    """Render a JoinedStr / Constant str as text with ⟨expr⟩ holes (expr = ast.unparse of the hole)."""
    if isinstance(node, ast.Constant) and isinstance(node.value, str):
        return node.value
    if isinstance(node, ast.JoinedStr):
        parts = []
        for v in node.values:
            if isinstance(v, ast.Constant):
                parts.append(str(v.value))
            elif isinstance(v, ast.FormattedValue):
                parts.append("⟨" + ast.unparse(v.value) + "⟩")
        return "".join(parts)
    if isinstance(node, ast.BinOp) and isinstance(node.op, ast.Add):
        l, r = fstring_template(node.left), fstring_template(node.right)
        if l is not None and r is not None:
            return l + r
    return None


def fstring_holes(node: ast.AST) -> List[ast.AST]:
    if isinstance(node, ast.JoinedStr):
        return [v.value for v in node.values if isinstance(v, ast.FormattedValue)]
    return []


def get_method(ctx, cls, name: str) -> FunctionInfo:
    m = cls.methods.get(name)
    if m is None:
        raise AnalysisError(f"anchor vanished: method {cls.name}.{name} in {cls.module.rel}")
    return m


def contains(outer: ast.AST, inner: ast.AST) -> bool:
    n = inner
    while n is not None:
        if n is outer:
            return True
        n = parent(n)
    return False


def in_body(loop: ast.stmt, node: ast.AST) -> bool:
    """node lies inside loop.body (not in its orelse / header)."""
    for b in loop.body:
        if contains(b, node):
            return True
    return False
