"""Statement-level inlining of private helpers (robustness against "extract method" refactorings).

`inlined(ctx, f)` returns a synthetic FunctionInfo whose body is f's body with every call of the form

    T = helper(...)      T1, T2 = helper(...)      return helper(...)      helper(...)

replaced by the helper's statements, provided that the callee resolves (through the call graph) to exactly ONE repository
function that is a *private helper* (name starts with `_`, defined in the same module or in a class of the receiver's MRO), has no
yield/global/nonlocal, and returns only through a single trailing `return`.  Helper locals are renamed apart (`name__helper_k`),
parameters become assignments `param__helper_k = <argument>` (plain Name/Constant arguments of never-rebound parameters are
substituted directly), so that `engine.util.normalise` can afterwards see through them as ordinary single-definition aliases.
A tuple return assigned to a tuple target of the same length is split into one assignment per element.

The synthetic function keeps f's qualname (construct keys do not change) but compares by identity, so ctx.cfg()/ctx.rd() build
fresh graphs for it.  Nested defs are re-indexed.  Nothing is executed.
"""
from __future__ import annotations

import ast
import copy
from typing import Dict, List, Optional

from .srcmodel import FunctionInfo, set_parents, walk_shallow

MAX_HELPER_STMTS = 60


class InlinedFunction(FunctionInfo):
    """FunctionInfo over a synthesised body; identity semantics for caches."""
    origin: FunctionInfo = None
    inlined_helpers: List[str] = ()

    def __hash__(self):
        return id(self)

    def __eq__(self, other):
        return self is other


def _mk(fi_cls, orig: FunctionInfo, node, parent=None, qualname=None):
    fi = fi_cls(name=node.name, qualname=qualname or orig.qualname, module=orig.module, node=node, cls=orig.cls if parent is None else None,
                parent=parent if parent is not None else orig.parent)
    for sub in walk_shallow(node):
        if isinstance(sub, (ast.FunctionDef, ast.AsyncFunctionDef)):
            fi.nested[sub.name] = _mk(fi_cls, orig, sub, parent=fi, qualname=f"{fi.qualname}.<locals>.{sub.name}")
    return fi


def clone(node):
    """Deep copy of an AST that does not follow the `_parent` / `_fi` back links."""
    if isinstance(node, list):
        return [clone(x) for x in node]
    if not isinstance(node, ast.AST):
        return node
    new = type(node)()
    for field, val in ast.iter_fields(node):
        setattr(new, field, clone(val))
    for a in ("lineno", "col_offset", "end_lineno", "end_col_offset"):
        if hasattr(node, a):
            setattr(new, a, getattr(node, a))
    if hasattr(node, "_inlined_from"):
        new._inlined_from = node._inlined_from
    return new


def _docless(body):
    return [s for s in body if not (isinstance(s, ast.Expr) and isinstance(s.value, ast.Constant) and isinstance(s.value.value, str))]


def _stored_names(node) -> set:
    out = set()
    for n in ast.walk(node):
        if isinstance(n, ast.Name) and isinstance(n.ctx, (ast.Store, ast.Del)):
            out.add(n.id)
        elif isinstance(n, (ast.FunctionDef, ast.AsyncFunctionDef, ast.ClassDef)) and n is not node:
            out.add(n.name)
        elif isinstance(n, ast.ExceptHandler) and n.name:
            out.add(n.name)
        elif isinstance(n, ast.arg):
            pass
    return out


def _comprehension_vars(node) -> set:
    out = set()
    for n in ast.walk(node):
        if isinstance(n, ast.comprehension):
            for x in ast.walk(n.target):
                if isinstance(x, ast.Name):
                    out.add(x.id)
    return out


def _has_return(stmts) -> bool:
    for st in stmts:
        if isinstance(st, (ast.FunctionDef, ast.AsyncFunctionDef, ast.ClassDef)):
            continue
        for n in [st] + list(walk_shallow(st)):
            if isinstance(n, ast.Return):
                return True
    return False


def _always_returns(stmts) -> bool:
    for st in stmts:
        if isinstance(st, (ast.Return, ast.Raise)):
            return True
        if isinstance(st, ast.If) and st.orelse and _always_returns(st.body) and _always_returns(st.orelse):
            return True
    return False


def returns_structured(stmts) -> bool:
    """Every `return` sits at the end of the body or in (nested) if-branches of the top level - never inside a loop/try/with."""
    for st in stmts:
        if isinstance(st, ast.Return):
            continue
        if isinstance(st, ast.If):
            if not (returns_structured(st.body) and returns_structured(st.orelse)):
                return False
        elif _has_return([st]):
            return False
    return True


def eliminate_returns(stmts: List[ast.stmt], result: str, budget=[0]) -> List[ast.stmt]:
    """Rewrite a body with structured returns into one without: `return e` becomes `result = e`, the statements after an `if`
    that returns on some branch are moved into the branches that fall through."""
    out: List[ast.stmt] = []
    for i, st in enumerate(stmts):
        if isinstance(st, ast.Return):
            v = st.value if st.value is not None else ast.Constant(value=None)
            out.append(ast.copy_location(ast.Assign(targets=[ast.Name(id=result, ctx=ast.Store())], value=v), st))
            return out
        if isinstance(st, ast.If) and _has_return([st]):
            rest = stmts[i + 1:]
            body = st.body if _always_returns(st.body) else st.body + clone(rest)
            orelse = st.orelse if (st.orelse and _always_returns(st.orelse)) else list(st.orelse) + clone(rest)
            new = ast.If(test=st.test, body=eliminate_returns(body, result) or [ast.Pass()], orelse=eliminate_returns(orelse, result))
            out.append(ast.copy_location(new, st))
            return out
        out.append(st)
    return out


def as_expression(body: List[ast.stmt]) -> Optional[ast.expr]:
    """`if c: return a` ... `return b`  ->  `a if c else b` (None if the body is not of that shape)."""
    if len(body) == 1 and isinstance(body[0], ast.Return) and body[0].value is not None:
        return body[0].value
    if body and isinstance(body[0], ast.If) and len(body[0].body) == 1 and isinstance(body[0].body[0], ast.Return) \
            and body[0].body[0].value is not None:
        rest = body[0].orelse if body[0].orelse else body[1:]
        if body[0].orelse and body[1:]:
            return None
        e = as_expression(list(rest))
        if e is None:
            return None
        return ast.IfExp(test=body[0].test, body=body[0].body[0].value, orelse=e)
    return None


def inlinable(ctx, f: FunctionInfo, call: ast.Call, stack=(), keep=()) -> Optional[FunctionInfo]:
    targets, how = ctx.cg.resolve_call(f, call)
    if len(targets) != 1 or how in ("by-name", "constructor", "external") or how.startswith("unresolved"):
        return None
    g = targets[0]
    forced = {k[1:] for k in keep if k.startswith("+")}          # "+name": splice this public helper too (a rule asked for it by name)
    if g in stack or g is f or g == f or not (g.name.startswith("_") or g.name in forced) or g.name.startswith("__") or g.name in keep:
        return None
    if g.is_property or g.is_classmethod or g.parent is not None:
        return None
    if any(not (isinstance(d, ast.Name) and d.id == "staticmethod") for d in g.node.decorator_list):
        return None
    # same module, or a method of a class in the caller's class hierarchy
    if g.module is not f.module and g.cls is not None:
        if not (g.cls is not None and f.cls is not None and g.cls in getattr(f.cls, "mro", [])):
            return None
    body = _docless(g.node.body)
    if not body or len(list(ast.walk(g.node))) > 2500 or sum(1 for _ in walk_shallow(g.node) if isinstance(_, ast.stmt)) > MAX_HELPER_STMTS:
        return None
    for n in walk_shallow(g.node):
        if isinstance(n, (ast.Yield, ast.YieldFrom, ast.Await, ast.Global, ast.Nonlocal)):
            return None
    if not returns_structured(body):
        return None
    a = g.node.args
    if a.vararg:
        return None
    if a.kwarg:
        # a catch-all `**kwargs` the body never reads, called with named parameters only, binds nothing
        named = {x.arg for x in a.posonlyargs + a.args + a.kwonlyargs}
        if any(isinstance(n, ast.Name) and n.id == a.kwarg.arg for b in g.node.body for n in ast.walk(b)) \
                or any(k.arg not in named for k in call.keywords):
            return None
    if any(isinstance(x, ast.Starred) for x in call.args) or any(k.arg is None for k in call.keywords):
        return None
    return g


class _Renamer(ast.NodeTransformer):
    def __init__(self, rename: Dict[str, str], subst: Dict[str, ast.AST]):
        self.rename, self.subst = rename, subst

    def visit_Name(self, n):
        if n.id in self.subst and isinstance(n.ctx, ast.Load):
            return clone(self.subst[n.id])
        if n.id in self.rename:
            return ast.copy_location(ast.Name(id=self.rename[n.id], ctx=n.ctx), n)
        return n

    def visit_FunctionDef(self, n):
        if n.name in self.rename:
            n.name = self.rename[n.name]
        # parameters of nested defs shadow
        shadow = {x.arg for x in n.args.posonlyargs + n.args.args + n.args.kwonlyargs}
        inner = _Renamer({k: v for k, v in self.rename.items() if k not in shadow}, {k: v for k, v in self.subst.items() if k not in shadow})
        n.body = [inner.visit(s) for s in n.body]
        n.args.defaults = [self.visit(d) for d in n.args.defaults]
        return n

    def visit_Lambda(self, n):
        shadow = {x.arg for x in n.args.posonlyargs + n.args.args + n.args.kwonlyargs}
        inner = _Renamer({k: v for k, v in self.rename.items() if k not in shadow}, {k: v for k, v in self.subst.items() if k not in shadow})
        n.body = inner.visit(n.body)
        return n


class _Inliner:
    def __init__(self, ctx, f, depth, stack, keep=()):
        self.ctx, self.f, self.depth, self.stack, self.keep = ctx, f, depth, stack, tuple(keep)
        self.k = 0
        self.helpers: List[str] = []

    def _bind(self, g: FunctionInfo, call: ast.Call):
        a = g.node.args
        pos = [x.arg for x in a.posonlyargs + a.args]
        kwonly = [x.arg for x in a.kwonlyargs]
        binding: Dict[str, ast.AST] = {}
        params = list(pos)
        if g.cls is not None and not g.is_static and params:
            recv = call.func.value if isinstance(call.func, ast.Attribute) else None
            if recv is None:
                return None
            binding[params[0]] = recv
            params = params[1:]
        if len(call.args) > len(params):
            return None
        for i, x in enumerate(call.args):
            binding[params[i]] = x
        for k in call.keywords:
            if k.arg not in params + kwonly or k.arg in binding:
                return None
            binding[k.arg] = k.value
        for i, d in enumerate(a.defaults):
            binding.setdefault(pos[len(pos) - len(a.defaults) + i], d)
        for nm, d in zip(kwonly, a.kw_defaults):
            if d is not None:
                binding.setdefault(nm, d)
        if set(pos + kwonly) - set(binding):
            return None
        return binding

    def splice(self, st: ast.stmt, call: ast.Call, g: FunctionInfo) -> Optional[List[ast.stmt]]:
        binding = self._bind(g, call)
        if binding is None:
            return None
        # helper body, itself inlined first
        gnode = inlined(self.ctx, g, depth=self.depth - 1, _stack=self.stack + (self.f,), keep=self.keep).node if self.depth > 1 else g.node
        body = clone(_docless(gnode.body))
        self.k += 1
        tag = f"__{g.name.strip('_')}_{self.k}"
        stored = set()
        for s in body:
            stored |= _stored_names(s)
        comp = set()
        for s in body:
            comp |= _comprehension_vars(s)
        rename = {n: n + tag for n in stored | comp}
        subst: Dict[str, ast.AST] = {}
        pre: List[ast.stmt] = []
        for p, arg in binding.items():
            if p not in stored and isinstance(arg, (ast.Name, ast.Constant)):
                subst[p] = arg
            else:
                rename[p] = p + tag
                asg = ast.Assign(targets=[ast.Name(id=p + tag, ctx=ast.Store())], value=clone(arg), lineno=st.lineno, col_offset=st.col_offset)
                pre.append(asg)
        rn = _Renamer(rename, subst)
        body = [rn.visit(s) for s in body]
        n_rets = sum(1 for b in body if not isinstance(b, (ast.FunctionDef, ast.AsyncFunctionDef, ast.ClassDef))
                     for n in [b] + list(walk_shallow(b)) if isinstance(n, ast.Return))
        if n_rets > 1 or (n_rets == 1 and not isinstance(body[-1], ast.Return)):
            res = "result" + tag
            body = eliminate_returns(body, res)
            value = ast.Name(id=res, ctx=ast.Load())
        else:
            ret = body[-1] if body and isinstance(body[-1], ast.Return) else None
            if ret is not None:
                body = body[:-1]
            value = ret.value if ret is not None and ret.value is not None else ast.Constant(value=None)
        tail: List[ast.stmt] = []
        if isinstance(st, ast.Return):
            tail = [ast.Return(value=value)]
        elif isinstance(st, ast.Expr):
            if not isinstance(value, (ast.Name, ast.Constant)):
                tail = [ast.Expr(value=value)]
        elif isinstance(st, ast.Assign):
            tgt = st.targets[0]
            if len(st.targets) == 1 and isinstance(tgt, (ast.Tuple, ast.List)) and isinstance(value, ast.Tuple) and len(tgt.elts) == len(value.elts) \
                    and not any(isinstance(e, ast.Starred) for e in list(tgt.elts) + list(value.elts)):
                tnames = {n.id for e in tgt.elts for n in ast.walk(e) if isinstance(n, ast.Name)}
                loads = {n.id for e in value.elts for n in ast.walk(e) if isinstance(n, ast.Name)}
                if not (tnames & loads):
                    tail = [ast.Assign(targets=[t], value=v) for t, v in zip(tgt.elts, value.elts)]
            if not tail:
                tail = [ast.Assign(targets=st.targets, value=value)]
        elif isinstance(st, ast.AnnAssign):
            tail = [ast.Assign(targets=[st.target], value=value)]
        else:
            return None
        out = pre + body + tail
        for s in out:
            ast.copy_location(s, st) if not hasattr(s, "lineno") else None
            for n in ast.walk(s):
                if not hasattr(n, "lineno") and isinstance(n, (ast.expr, ast.stmt)):
                    n.lineno, n.col_offset = st.lineno, st.col_offset
                    n.end_lineno, n.end_col_offset = getattr(st, "end_lineno", st.lineno), getattr(st, "end_col_offset", 0)
            s._inlined_from = g.qual  # type: ignore[attr-defined]
        self.helpers.append(g.qual)
        return out

    def expr_inline(self, e, rounds=3):
        """Expression-level inlining of helpers whose body is one `return <expr>` (used where a statement cannot be spliced:
        tests of if/while, arguments, operands)."""
        me = self

        class T(ast.NodeTransformer):
            def visit_Call(self, c):
                self.generic_visit(c)
                g = inlinable(me.ctx, me.f, c, me.stack, me.keep)
                if g is None:
                    return c
                rexpr = as_expression(_docless(g.node.body))
                if rexpr is None:
                    return c
                binding = me._bind(g, c)
                if binding is None:
                    return c
                me.helpers.append(g.qual)
                new = _Renamer({}, binding).visit(clone(rexpr))
                for n in ast.walk(new):
                    n.lineno, n.col_offset = c.lineno, c.col_offset
                    n.end_lineno, n.end_col_offset = getattr(c, "end_lineno", c.lineno), getattr(c, "end_col_offset", 0)
                return new

            def visit_FunctionDef(self, n):
                return n

            def visit_Lambda(self, n):
                return n
        for _ in range(rounds):
            before = len(self.helpers)
            e = T().visit(e)
            if len(self.helpers) == before:
                break
        return e

    def exprs_of(self, st):
        """Transform the expressions that belong to `st` itself (not to statements nested in it)."""
        if isinstance(st, (ast.FunctionDef, ast.AsyncFunctionDef, ast.ClassDef)):
            return
        for field, val in ast.iter_fields(st):
            if isinstance(val, ast.expr):
                setattr(st, field, self.expr_inline(val))
            elif isinstance(val, list) and val and isinstance(val[0], ast.expr):
                setattr(st, field, [self.expr_inline(x) for x in val])
            elif isinstance(val, list) and val and isinstance(val[0], ast.withitem):
                for w in val:
                    w.context_expr = self.expr_inline(w.context_expr)

    def block(self, stmts: List[ast.stmt], orig: List[ast.stmt]) -> List[ast.stmt]:
        out: List[ast.stmt] = []
        for st, ost in zip(stmts, orig):
            call = None
            if isinstance(ost, (ast.Assign, ast.AnnAssign, ast.Return, ast.Expr)) and isinstance(getattr(ost, "value", None), ast.Call):
                if not (isinstance(ost, ast.Assign) and len(ost.targets) != 1):
                    call = ost.value
            if call is not None:
                g = inlinable(self.ctx, self.f, call, self.stack, self.keep)
                if g is not None:
                    sp = self.splice(st, st.value, g)
                    if sp is not None:
                        out.extend(sp)
                        continue
            for field in ("body", "orelse", "finalbody"):
                sub = getattr(st, field, None)
                if isinstance(sub, list) and sub and isinstance(sub[0], ast.stmt) and not isinstance(st, (ast.FunctionDef, ast.AsyncFunctionDef, ast.ClassDef)):
                    setattr(st, field, self.block(sub, getattr(ost, field)))
            if isinstance(st, ast.Try):
                for h, oh in zip(st.handlers, ost.handlers):
                    h.body = self.block(h.body, oh.body)
            self.exprs_of(st)
            out.append(st)
        return out


def inlined(ctx, f: FunctionInfo, depth: int = 3, _stack=(), keep=()) -> FunctionInfo:
    """`keep`: names of helpers that must stay calls (anchors a rule wants to see); an entry "+name" asks for the opposite: splice the
    PUBLIC helper `name` as well (only private helpers are spliced by default)."""
    cache = ctx.__dict__.setdefault("_inlined_cache", {})
    key = (f.qual, depth, tuple(sorted(keep)))
    if key in cache and not isinstance(f, InlinedFunction):
        return cache[key]
    node = clone(f.node)
    inl = _Inliner(ctx, f, depth, _stack, keep)
    node.body = inl.block(node.body, f.node.body)
    ast.fix_missing_locations(node)
    set_parents(node)
    node._parent = getattr(f.node, "_parent", None)
    fi = _mk(InlinedFunction, f, node)
    fi.origin = f
    fi.inlined_helpers = list(inl.helpers)
    if not isinstance(f, InlinedFunction):
        cache[key] = fi
    return fi
