"""Reaching definitions / def-use chains and a small provenance ("origin") evaluator on the CFG.

Definitions are (name, defining-node) pairs; the defining node is the statement (Assign,
AugAssign, For, With, ExceptHandler, Import, FunctionDef, ...) or the function's `arguments`
object for parameters.  Comprehension-local names are handled by the origin evaluator, not by
the CFG dataflow (they cannot leak in Python 3).
"""
from __future__ import annotations

import ast
from typing import Dict, FrozenSet, Iterable, List, Optional, Set, Tuple

from .cfg import CFG, stmt_of
from .srcmodel import walk_shallow, parent, dotted

Def = Tuple[str, object]      # (name, defining node)


def target_names(t: ast.AST) -> List[str]:
    out = []
    for n in ast.walk(t):
        if isinstance(n, ast.Name) and isinstance(n.ctx, (ast.Store, ast.Del)):
            out.append(n.id)
    return out


def stmt_defs(st) -> List[str]:
    """Names (re)bound by the header of statement `st` (not by nested statements)."""
    if isinstance(st, ast.Assign):
        out = []
        for t in st.targets:
            out += target_names(t)
        return out + _walrus(st.value)
    if isinstance(st, ast.AnnAssign):
        return (target_names(st.target) if st.value is not None else []) + (_walrus(st.value) if st.value else [])
    if isinstance(st, ast.AugAssign):
        return target_names(st.target) + _walrus(st.value)
    if isinstance(st, (ast.For, ast.AsyncFor)):
        return target_names(st.target) + _walrus(st.iter)
    if isinstance(st, (ast.With, ast.AsyncWith)):
        out = []
        for it in st.items:
            if it.optional_vars is not None:
                out += target_names(it.optional_vars)
        return out
    if isinstance(st, ast.ExceptHandler):
        return [st.name] if st.name else []
    if isinstance(st, (ast.Import, ast.ImportFrom)):
        return [(a.asname or a.name.split(".")[0]) for a in st.names]
    if isinstance(st, (ast.FunctionDef, ast.AsyncFunctionDef, ast.ClassDef)):
        return [st.name]
    if isinstance(st, (ast.If, ast.While)):
        return _walrus(st.test)
    if isinstance(st, (ast.Expr, ast.Return)):
        return _walrus(st.value) if st.value is not None else []
    if isinstance(st, ast.Delete):
        out = []
        for t in st.targets:
            if isinstance(t, ast.Name):
                out.append(t.id)
        return out
    return []


def _walrus(e) -> List[str]:
    if e is None:
        return []
    return [n.target.id for n in ast.walk(e) if isinstance(n, ast.NamedExpr) and isinstance(n.target, ast.Name)]


def header_exprs(st) -> List[ast.AST]:
    """Expressions evaluated by the header of `st` (what the CFG node stands for)."""
    if isinstance(st, (ast.If, ast.While)):
        return [st.test]
    if isinstance(st, (ast.For, ast.AsyncFor)):
        return [st.iter]
    if isinstance(st, (ast.With, ast.AsyncWith)):
        return [it.context_expr for it in st.items]
    if isinstance(st, ast.Try):
        return []
    if isinstance(st, ast.ExceptHandler):
        return [st.type] if st.type is not None else []
    if isinstance(st, (ast.FunctionDef, ast.AsyncFunctionDef)):
        return list(st.decorator_list) + [d for d in st.args.defaults] + [d for d in st.args.kw_defaults if d is not None]
    if isinstance(st, ast.ClassDef):
        return list(st.bases)
    if isinstance(st, ast.Match):
        return [st.subject]
    return [st]


def header_loads(st) -> List[ast.Name]:
    out = []
    for e in header_exprs(st):
        for n in ast.walk(e):
            if isinstance(n, ast.Name) and isinstance(n.ctx, ast.Load):
                out.append(n)
    # nested function bodies read enclosing names at call time; treat the def statement as reading them
    if isinstance(st, (ast.FunctionDef, ast.AsyncFunctionDef)):
        for n in ast.walk(st):
            if isinstance(n, ast.Name) and isinstance(n.ctx, ast.Load):
                out.append(n)
    if isinstance(st, ast.AugAssign) and isinstance(st.target, ast.Name):
        out.append(st.target)
    return out


class ReachingDefs:
    def __init__(self, cfg: CFG):
        self.cfg = cfg
        func = cfg.func
        self.params: List[str] = []
        if hasattr(func, "args"):
            a = func.args
            self.params = [x.arg for x in a.posonlyargs + a.args + a.kwonlyargs]
            if a.vararg:
                self.params.append(a.vararg.arg)
            if a.kwarg:
                self.params.append(a.kwarg.arg)
        self.IN: Dict[object, FrozenSet[Def]] = {}
        self.OUT: Dict[object, FrozenSet[Def]] = {}
        self._solve()

    def _solve(self):
        g = self.cfg.g
        entry_defs = frozenset((p, self.cfg.func.args) for p in self.params) if hasattr(self.cfg.func, "args") else frozenset()
        gen: Dict[object, Set[Def]] = {}
        kill: Dict[object, Set[str]] = {}
        for n in g.nodes:
            names = stmt_defs(n) if isinstance(n, (ast.stmt, ast.ExceptHandler)) else []
            gen[n] = {(nm, n) for nm in names}
            kill[n] = set(names)
        IN = {n: frozenset() for n in g.nodes}
        OUT = {n: frozenset() for n in g.nodes}
        OUT[self.cfg.ENTRY] = entry_defs
        work = list(g.nodes)
        in_work = set(work)
        while work:
            n = work.pop()
            in_work.discard(n)
            if n is self.cfg.ENTRY:
                new_in = frozenset()
                new_out = entry_defs
            else:
                preds = list(g.predecessors(n))
                new_in = frozenset().union(*[OUT[p] for p in preds]) if preds else frozenset()
                if isinstance(n, ast.Delete):
                    new_out = frozenset(d for d in new_in if d[0] not in kill[n])
                else:
                    new_out = frozenset(d for d in new_in if d[0] not in kill[n]) | frozenset(gen[n])
            IN[n] = new_in
            if new_out != OUT[n]:
                OUT[n] = new_out
                for s in g.successors(n):
                    if s not in in_work:
                        work.append(s)
                        in_work.add(s)
        self.IN, self.OUT = IN, OUT

    def defs_reaching(self, name_node: ast.Name) -> List[object]:
        """Defining nodes of `name_node.id` that reach this use (empty => free/global name)."""
        st = stmt_of(self.cfg, name_node)
        if st is None:
            return []
        return [d for (nm, d) in self.IN.get(st, ()) if nm == name_node.id]

    def defs_reaching_at(self, st, name: str) -> List[object]:
        return [d for (nm, d) in self.IN.get(st, ()) if nm == name]

    def is_local(self, name: str) -> bool:
        if name in self.params:
            return True
        for n in self.cfg.g.nodes:
            if isinstance(n, (ast.stmt, ast.ExceptHandler)) and name in stmt_defs(n):
                return True
        return False


def assigned_value(defnode, name: str) -> Optional[ast.AST]:
    """The expression whose value `name` receives at `defnode`, when that is syntactically direct.

    Returns ('iter', expr) style tuples for loops through `ValueOf` below; this helper handles the
    plain `name = expr` and `a, b = x, y` cases and returns None otherwise.
    """
    if isinstance(defnode, ast.Assign):
        for t in defnode.targets:
            if isinstance(t, ast.Name) and t.id == name:
                return defnode.value
            if isinstance(t, (ast.Tuple, ast.List)) and isinstance(defnode.value, (ast.Tuple, ast.List)) \
                    and len(t.elts) == len(defnode.value.elts):
                for te, ve in zip(t.elts, defnode.value.elts):
                    if isinstance(te, ast.Name) and te.id == name:
                        return ve
    if isinstance(defnode, ast.AnnAssign) and isinstance(defnode.target, ast.Name) and defnode.target.id == name:
        return defnode.value
    return None
