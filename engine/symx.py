"""Python-expression AST -> sympy expression, for the embedded-code algebra rules (K6).

sympy is used purely as an algebra library on expressions *extracted from the source*; nothing of
PyRates is imported or run.  Subscripts `a[i]` / calls `a(i)` become applications of an undefined
function named after the (normalised) base, so that `y[i1]` and `y[i2]` are different atoms unless
their index expressions are equal after normalisation.
"""
from __future__ import annotations

import ast
from typing import Callable, Dict, Optional

import sympy as sp

from . import AnalysisError


class Unsupported(AnalysisError):
    pass


def to_sympy(node: ast.AST, *, leaf: Optional[Callable[[ast.AST], Optional[sp.Expr]]] = None,
             env: Optional[Dict[str, sp.Expr]] = None, call_as_index=False) -> sp.Expr:
    """Convert an arithmetic expression.  `leaf(node)` may return a sympy value for any node to
    override the default mapping; `env` maps names to already-converted values (inlined locals)."""
    env = env or {}

    def rec(n):
        if leaf is not None:
            v = leaf(n)
            if v is not None:
                return v
        if isinstance(n, ast.Constant):
            if isinstance(n.value, bool):
                return sp.Integer(int(n.value))
            if isinstance(n.value, int):
                return sp.Integer(n.value)
            if isinstance(n.value, float):
                return sp.nsimplify(n.value, rational=True)
            raise Unsupported(f"constant {n.value!r}")
        if isinstance(n, ast.Name):
            if n.id in env:
                return env[n.id]
            return sp.Symbol(n.id)
        if isinstance(n, ast.UnaryOp):
            v = rec(n.operand)
            if isinstance(n.op, ast.USub):
                return -v
            if isinstance(n.op, ast.UAdd):
                return v
            raise Unsupported(ast.dump(n.op))
        if isinstance(n, ast.BinOp):
            a, b = rec(n.left), rec(n.right)
            if isinstance(n.op, ast.Add):
                return a + b
            if isinstance(n.op, ast.Sub):
                return a - b
            if isinstance(n.op, ast.Mult):
                return a * b
            if isinstance(n.op, ast.Div):
                return a / b
            if isinstance(n.op, ast.Pow):
                return a ** b
            raise Unsupported(ast.dump(n.op))
        if isinstance(n, ast.Subscript):
            base = _base_name(n.value)
            idx = n.slice
            args = [rec(e) for e in idx.elts] if isinstance(idx, ast.Tuple) else [rec(idx)]
            return sp.Function(base)(*args)
        if isinstance(n, ast.Call):
            base = _base_name(n.func)
            args = [rec(a) for a in n.args]
            return sp.Function(base)(*args)
        if isinstance(n, ast.Attribute):
            return sp.Symbol(_base_name(n))
        if isinstance(n, ast.Slice):
            lo = rec(n.lower) if n.lower is not None else sp.Symbol("_lo")
            hi = rec(n.upper) if n.upper is not None else sp.Symbol("_hi")
            return sp.Function("_slice")(lo, hi)
        raise Unsupported(type(n).__name__)

    return rec(node)


def _base_name(n: ast.AST) -> str:
    if isinstance(n, ast.Name):
        return n.id
    if isinstance(n, ast.Attribute):
        return _base_name(n.value) + "." + n.attr
    return ast.unparse(n)


def equal(a: sp.Expr, b: sp.Expr) -> bool:
    try:
        d = sp.simplify(sp.together(sp.expand(a - b)))
    except Exception as e:      # pragma: no cover
        raise Unsupported(f"cannot normalise: {e}")
    return d == 0


def is_linear_interpolant(expr: sp.Expr, *, q: sp.Expr, Y: str, X: str, lo: sp.Expr, hi: sp.Expr) -> bool:
    """expr == Y(lo) + (q - X(lo)) / (X(hi) - X(lo)) * (Y(hi) - Y(lo)) ?"""
    Yf, Xf = sp.Function(Y), sp.Function(X)
    ref = Yf(lo) + (q - Xf(lo)) / (Xf(hi) - Xf(lo)) * (Yf(hi) - Yf(lo))
    return equal(expr, ref)
