"""Effect (mutation) analysis with alias tracking (DESIGN §2 dataflow / rule kind K4).

For every function a *summary* is computed by fixpoint over the resolved call graph:

    mutates(f)  set of (param, path)    objects reachable from a parameter that f may mutate
    gmutates(f) set of (module, name, path)  module-level objects f may mutate
    returns(f)  set of origins          what the return value may alias

An *origin* says where an object comes from:

    ("P", param, path)      reachable from parameter `param` through `path`
    ("G", module_rel, name, path)   reachable from a module-level binding
    ("F",)                  fresh (literal, constructor, deepcopy, comprehension, arithmetic, str method ...)
    ("C", origin)           shallow copy of `origin` (mutating the copy itself is harmless, its elements alias)
    ("U",)                  unknown (result of an unresolved call)

`path` is a tuple of steps ".attr" / "[*]" (element, value, iteration), truncated at MAXLEN.

Limitations (stated in evidence): references stored into other objects are not tracked as aliases
(`self.x = arg` then `self.x.append(..)` is recorded as a mutation of self.x only); unknown origins are
counted, not flagged; `*args/**kwargs` forwarding is not bound.
"""
from __future__ import annotations

import ast
from dataclasses import dataclass, field
from typing import Dict, FrozenSet, Iterable, List, Optional, Set, Tuple

from .srcmodel import Repo, FunctionInfo, ClassInfo, Module, walk_shallow, dotted, parent, norm
from .cfg import CFG, stmt_of
from .dataflow import ReachingDefs

MAXLEN = 4
FRESH = ("F",)
UNKNOWN = ("U",)

MUTATORS = {"append", "extend", "update", "pop", "popitem", "clear", "insert", "remove", "setdefault", "add", "discard",
            "sort", "reverse", "__setitem__", "__delitem__", "appendleft", "add_node", "add_edge", "remove_node",
            "add_nodes_from", "add_edges_from"}
# element accessors: result aliases an element of the receiver
ELEMENT_GETTERS = {"get", "pop", "setdefault", "values", "items", "popitem", "__getitem__"}
SHALLOW_COPIERS_FUNC = {"dict", "list", "set", "tuple", "sorted", "copy", "reversed", "frozenset"}
DEEP_COPIERS = {"deepcopy"}
PURE_FUNCS = {"len", "str", "int", "float", "bool", "isinstance", "type", "hasattr", "repr", "sum", "min", "max", "abs", "round",
              "range", "print", "any", "all", "id", "hash", "callable", "format", "ord", "chr", "issubclass", "warn", "getattr_const"}
STR_METHODS = {"split", "join", "replace", "strip", "lstrip", "rstrip", "format", "startswith", "endswith", "find", "index",
               "lower", "upper", "count", "rsplit", "encode", "decode", "isnumeric", "isdigit", "keys"}


def _ext(path: tuple, step: str) -> tuple:
    if len(path) >= MAXLEN:
        return path
    return path + (step,)


def step(o: tuple, s: str) -> tuple:
    if o[0] == "P":
        return ("P", o[1], _ext(o[2], s))
    if o[0] == "G":
        return ("G", o[1], o[2], _ext(o[3], s))
    if o[0] == "C":
        return step(o[1], s)
    if o[0] == "L":
        # element of a fresh container: aliases whatever was put into it (expanded by the caller through `steps`)
        return ("LE", o[1]) if s == "[*]" else FRESH
    return o


def _untag(x):
    return x[2] if x[0] == "K" else x


def steps(origins, s: str, key=None):
    """Apply one access step to a set of origins (expands fresh-container elements; `key` = constant subscript,
    which selects only the entries of a dict literal stored under that key)."""
    out = set()
    for o in origins:
        r = step(o, s)
        if r[0] == "LE":
            for x in r[1]:
                if x[0] == "K" and key is not None and x[1] != key:
                    continue
                out.add(_untag(x))
        else:
            out.add(r)
    return out


def shallow(o: tuple) -> tuple:
    if o[0] in ("F", "U", "L"):
        return o
    if o[0] == "C":
        return o
    return ("C", o)


@dataclass
class Event:
    f: FunctionInfo
    stmt: ast.AST
    origin: tuple            # what is mutated, in terms of f's own parameters / globals
    how: str                 # description
    via: Tuple[str, ...] = ()    # callee chain

    def key(self):
        return (self.f.qual, id(self.stmt), self.origin, self.how)


class Effects:
    def __init__(self, ctx):
        self.ctx = ctx
        self.repo: Repo = ctx.repo
        self.cg = ctx.cg
        # summaries are keyed by (function, variant); variant = assumed value of the guard parameter
        # (`in_place`: None = unknown, True, False) so that `update_template(in_place=False)` is not charged
        # with the stores it performs only when in_place is true.
        self.mut: Dict[tuple, Set[Tuple[str, tuple]]] = {}
        self.gmut: Dict[tuple, Set[Tuple[str, str, tuple]]] = {}
        self.ret: Dict[tuple, Set[tuple]] = {}
        self.events: Dict[tuple, List[Event]] = {}
        for f in self.repo.functions.values():
            for v in self.variants(f):
                self.mut[(f, v)], self.gmut[(f, v)], self.ret[(f, v)] = set(), set(), set()
        self.unknown_mutations = 0
        self._solve()

    # ---------------------------------------------------------------------------------------------
    GUARD = "in_place"

    def variants(self, f: FunctionInfo):
        return (None, True, False) if self.GUARD in f.params else (None,)

    def _solve(self):
        funcs = sorted(self.repo.functions.values(), key=lambda f: f.qual)
        for it in range(14):
            changed = False
            self.unknown_mutations = 0
            for f in funcs:
                for v in self.variants(f):
                    an = _FuncAnalysis(self, f, v)
                    an.run()
                    k = (f, v)
                    m = {(o[1], o[2]) for e in an.events for o in [e.origin] if o[0] == "P"}
                    g = {(o[1], o[2], o[3]) for e in an.events for o in [e.origin] if o[0] == "G"}
                    r = set(an.returns)
                    if not (m <= self.mut[k] and g <= self.gmut[k] and r <= self.ret[k]):
                        changed = True
                        self.mut[k] |= m
                        self.gmut[k] |= g
                        self.ret[k] |= r
                    self.events[k] = an.events
            if not changed:
                break
        self.iterations = it + 1

    def events_of(self, f: FunctionInfo, variant=None) -> List[Event]:
        return self.events.get((f, variant), [])

    def mutates(self, f: FunctionInfo, variant=None):
        return self.mut.get((f, variant), set())

    def returns(self, f: FunctionInfo, variant=None):
        return self.ret.get((f, variant), set())

    def variant_for(self, caller: "_FuncAnalysis", call: ast.Call, g: FunctionInfo):
        if self.GUARD not in g.params:
            return None
        val = None
        for kw in call.keywords:
            if kw.arg == self.GUARD:
                val = kw.value
        if val is None:
            params = [p for p in g.params]
            if g.cls is not None and not g.is_static and params:
                params = params[1:]
            if self.GUARD in params:
                i = params.index(self.GUARD)
                if i < len(call.args) and not any(isinstance(a, ast.Starred) for a in call.args[:i + 1]):
                    val = call.args[i]
        if val is None:
            # default value from the signature
            a = g.node.args
            pos = a.posonlyargs + a.args
            names = [x.arg for x in pos]
            if self.GUARD in names:
                i = names.index(self.GUARD) - (len(pos) - len(a.defaults))
                if 0 <= i < len(a.defaults):
                    val = a.defaults[i]
            for x, d in zip(a.kwonlyargs, a.kw_defaults):
                if x.arg == self.GUARD and d is not None:
                    val = d
            if any(k.arg is None for k in call.keywords):     # **kwargs may carry it
                val = None
        if isinstance(val, ast.Constant) and isinstance(val.value, bool):
            return val.value
        if isinstance(val, ast.Name) and val.id == self.GUARD and caller.variant is not None:
            return caller.variant
        return None


class _FuncAnalysis:
    def __init__(self, eff: Effects, f: FunctionInfo, variant=None):
        self.eff = eff
        self.f = f
        self.variant = variant
        self.ctx = eff.ctx
        self.cfg: CFG = eff.ctx.cfg(f)
        self.rd: ReachingDefs = eff.ctx.rd(f)
        self.events: List[Event] = []
        self.returns: Set[tuple] = set()
        self._memo: dict = {}
        self._busy: set = set()
        self.module: Module = f.module
        self.live = self._live_nodes()

    def _const_test(self, test) -> Optional[bool]:
        """Value of an if/ifexp test under the assumed value of the guard parameter, else None."""
        if self.variant is None:
            return None
        g = Effects.GUARD
        if isinstance(test, ast.Name) and test.id == g:
            return self.variant
        if isinstance(test, ast.UnaryOp) and isinstance(test.op, ast.Not):
            v = self._const_test(test.operand)
            return None if v is None else (not v)
        return None

    def _live_nodes(self):
        """CFG nodes reachable from ENTRY when branches contradicting the assumption are not taken."""
        if self.variant is None:
            return None
        # the guard parameter must not be re-bound
        for n in walk_shallow(self.f.node):
            if isinstance(n, ast.Name) and n.id == Effects.GUARD and isinstance(n.ctx, ast.Store):
                self.variant = None
                return None
        g = self.cfg.g
        seen = {self.cfg.ENTRY}
        stack = [self.cfg.ENTRY]
        while stack:
            n = stack.pop()
            v = self._const_test(n.test) if isinstance(n, (ast.If, ast.While)) else None
            for s2 in g.successors(n):
                labels = g[n][s2]["labels"] - {"back"}
                if v is True and labels <= {"false"}:
                    continue
                if v is False and labels <= {"true"}:
                    continue
                if s2 not in seen:
                    seen.add(s2)
                    stack.append(s2)
        return seen

    def _is_live(self, node) -> bool:
        if self.live is None:
            return True
        st = stmt_of(self.cfg, node)
        return st is None or st in self.live

    # ---- origins of expressions -------------------------------------------------------------------
    def origins(self, e: ast.AST) -> FrozenSet[tuple]:
        k = id(e)
        if k in self._memo:
            return self._memo[k]
        if k in self._busy:
            return frozenset()
        self._busy.add(k)
        try:
            r = frozenset(self._origins(e))
        finally:
            self._busy.discard(k)
        self._memo[k] = r
        return r

    def _origins(self, e) -> Iterable[tuple]:
        if isinstance(e, ast.Name):
            return self._name_origins(e)
        if isinstance(e, ast.Attribute):
            # property / plain attribute: alias of the base's component
            return steps(self.origins(e.value), "." + e.attr)
        if isinstance(e, ast.Subscript):
            if isinstance(e.slice, ast.Slice):
                return {shallow(o) for o in self.origins(e.value)}
            key = e.slice.value if isinstance(e.slice, ast.Constant) and isinstance(e.slice.value, (str, int)) else None
            return steps(self.origins(e.value), "[*]", key=key)
        if isinstance(e, ast.Starred):
            return self.origins(e.value)
        if isinstance(e, ast.IfExp):
            v = self._const_test(e.test)
            if v is True:
                return self.origins(e.body)
            if v is False:
                return self.origins(e.orelse)
            return set(self.origins(e.body)) | set(self.origins(e.orelse))
        if isinstance(e, ast.BoolOp):
            out = set()
            for v in e.values:
                out |= set(self.origins(v))
            return out
        if isinstance(e, ast.NamedExpr):
            return self.origins(e.value)
        if isinstance(e, ast.Call):
            return self._call_origins(e)
        if isinstance(e, (ast.Tuple, ast.List, ast.Set)):
            return {self._container([x.value if isinstance(x, ast.Starred) else x for x in e.elts])}
        if isinstance(e, ast.Dict):
            ks = [(k.value if isinstance(k, ast.Constant) else None) for k in e.keys]
            return {self._container(list(e.values), keys=ks)}
        if isinstance(e, (ast.ListComp, ast.SetComp, ast.GeneratorExp)):
            return {self._container([e.elt])}
        if isinstance(e, ast.DictComp):
            return {self._container([e.value])}
        if isinstance(e, (ast.Constant, ast.JoinedStr, ast.BinOp, ast.UnaryOp, ast.Compare, ast.Lambda, ast.FormattedValue)):
            return {FRESH}
        if isinstance(e, ast.Await):
            return self.origins(e.value)
        return {UNKNOWN}

    def _container(self, elems, keys=None) -> tuple:
        """Origin of a fresh container holding the given element expressions (dict literals: tagged by constant key)."""
        inner = set()
        for i, x in enumerate(elems):
            key = keys[i] if keys is not None and i < len(keys) else None
            for o in self.origins(x):
                if o[0] in ("P", "G", "C"):
                    inner.add(("K", key, o) if key is not None else o)
                elif o[0] == "L":
                    inner |= {_untag(y) for y in o[1]}      # nesting flattened (over-approximation)
        return ("L", frozenset(inner)) if inner else FRESH

    def _stored_into(self, name: str):
        """Flow-insensitive: expressions stored into the local container `name` (x[k] = v, x.append(v), ...)."""
        if not hasattr(self, "_stores"):
            self._stores = {}
            for n in walk_shallow(self.f.node):
                if isinstance(n, ast.Assign):
                    for t in n.targets:
                        if isinstance(t, ast.Subscript) and isinstance(t.value, ast.Name):
                            k = t.slice.value if isinstance(t.slice, ast.Constant) and isinstance(t.slice.value, (str, int)) else None
                            self._stores.setdefault(t.value.id, []).append(("item", n.value, k))
                elif isinstance(n, ast.Call) and isinstance(n.func, ast.Attribute) and isinstance(n.func.value, ast.Name) \
                        and n.func.attr in ("append", "add", "insert", "setdefault", "extend", "update"):
                    args = list(n.args) + [k.value for k in n.keywords]
                    if args:
                        self._stores.setdefault(n.func.value.id, []).append((n.func.attr, args[-1]))
        return self._stores.get(name, [])

    def _comp_binding(self, n: ast.Name) -> Optional[FrozenSet[tuple]]:
        """Is `n` bound by an enclosing comprehension?  Then its origin is an element of the iterated object."""
        p = parent(n)
        while p is not None and p is not self.f.node:
            if isinstance(p, (ast.ListComp, ast.SetComp, ast.DictComp, ast.GeneratorExp)):
                for gen in p.generators:
                    r = self._target_origin(gen.target, gen.iter, n.id)
                    if r is not None:
                        return r
            p = parent(p)
        return None

    def _target_origin(self, target, iter_expr, name) -> Optional[FrozenSet[tuple]]:
        """Origin of `name` when `target` is bound to the elements of `iter_expr`."""
        names = [x.id for x in ast.walk(target) if isinstance(x, ast.Name)]
        if name not in names:
            return None
        it = iter_expr
        # unwrap enumerate / zip / items / values / keys / sorted / list / reversed
        if isinstance(it, ast.Call):
            fn = it.func
            cname = fn.id if isinstance(fn, ast.Name) else (fn.attr if isinstance(fn, ast.Attribute) else None)
            if cname == "enumerate" and it.args and isinstance(target, ast.Tuple) and len(target.elts) == 2:
                if any(isinstance(x, ast.Name) and x.id == name for x in ast.walk(target.elts[0])):
                    return frozenset({FRESH})
                return self._target_origin(target.elts[1], it.args[0], name)
            if cname == "zip" and isinstance(target, ast.Tuple) and len(target.elts) == len(it.args):
                for t, a in zip(target.elts, it.args):
                    r = self._target_origin(t, a, name)
                    if r is not None:
                        return r
                return None
            if cname == "items" and isinstance(fn, ast.Attribute) and isinstance(target, ast.Tuple) and len(target.elts) == 2:
                if any(isinstance(x, ast.Name) and x.id == name for x in ast.walk(target.elts[0])):
                    return frozenset({FRESH})            # keys: treated as immutable
                base = self.origins(fn.value)
                elem = frozenset(steps(base, "[*]"))
                return self._destructure(target.elts[1], elem, name)
            if cname == "keys" and isinstance(fn, ast.Attribute):
                return frozenset({FRESH})
            if cname in ("values",) and isinstance(fn, ast.Attribute):
                base = self.origins(fn.value)
                return self._destructure(target, frozenset(steps(base, "[*]")), name)
            if cname in ("sorted", "list", "reversed", "tuple", "set") and it.args:
                return self._target_origin(target, it.args[0], name)
            if cname == "range":
                return frozenset({FRESH})
        base = self.origins(it)
        elem = frozenset(steps(base, "[*]"))
        return self._destructure(target, elem, name)

    def _destructure(self, target, elem: FrozenSet[tuple], name) -> FrozenSet[tuple]:
        if isinstance(target, ast.Name):
            return elem
        # nested tuple target: components of the element
        return frozenset(steps(elem, "[*]"))

    def _name_origins(self, n: ast.Name) -> Iterable[tuple]:
        cb = self._comp_binding(n)
        if cb is not None:
            return cb
        defs = self.rd.defs_reaching(n)
        if not defs:
            # lambda parameter / nested scope / global
            if self.rd.is_local(n.id):
                return {UNKNOWN}
            return self._global_origin(n.id)
        out: Set[tuple] = set()
        for d in defs:
            if self.live is not None and isinstance(d, ast.stmt) and d not in self.live:
                continue
            out |= set(self._def_origin(d, n.id))
        if any(o[0] in ("F", "L") for o in out):
            stored = self._stored_into(n.id)
            if stored:
                inner = set()
                for item in stored:
                    how, expr = item[0], item[1]
                    key = item[2] if len(item) > 2 else None
                    os_ = self.origins(expr)
                    if how in ("extend", "update"):
                        os_ = steps(os_, "[*]")
                    for o in os_:
                        if o[0] in ("P", "G", "C"):
                            inner.add(("K", key, o) if key is not None else o)
                        elif o[0] == "L":
                            inner |= {_untag(y) for y in o[1]}
                if inner:
                    new = set()
                    for o in out:
                        if o[0] == "F":
                            new.add(("L", frozenset(inner)))
                        elif o[0] == "L":
                            new.add(("L", frozenset(set(o[1]) | inner)))
                        else:
                            new.add(o)
                    out = new
        return out

    def _global_origin(self, name: str) -> Iterable[tuple]:
        m = self.module
        # enclosing function's locals (closures)
        g = self.f.parent
        if g is not None:
            return {UNKNOWN} if name in _all_local_names(g) else self._module_global(m, name)
        return self._module_global(m, name)

    def _module_global(self, m: Module, name: str, depth=0) -> Iterable[tuple]:
        if name in m.assigns:
            st = m.assigns[name][-1]
            val = getattr(st, "value", None)
            if isinstance(val, (ast.Dict, ast.List, ast.Set, ast.ListComp, ast.DictComp)) or \
                    (isinstance(val, ast.Call) and isinstance(val.func, ast.Name) and val.func.id in ("dict", "list", "set", "OrderedDict", "defaultdict")):
                return {("G", m.rel, name, ())}
            return {FRESH}
        if name in m.imports and depth < 4:
            src, sym = m.imports[name]
            tm = self.eff.repo.modules.get(src)
            if tm is not None and sym is not None:
                return self._module_global(tm, sym, depth + 1)
        return {FRESH}

    def _def_origin(self, d, name: str) -> Iterable[tuple]:
        k = ("def", id(d), name)
        if k in self._memo:
            return self._memo[k]
        if k in self._busy:
            return frozenset()
        self._busy.add(k)
        try:
            r = frozenset(self._def_origin0(d, name))
        finally:
            self._busy.discard(k)
        self._memo[k] = r
        return r

    def _def_origin0(self, d, name: str) -> Iterable[tuple]:
        if isinstance(d, ast.arguments):
            return {("P", name, ())}
        if isinstance(d, ast.Assign):
            for t in d.targets:
                if isinstance(t, ast.Name) and t.id == name:
                    return self.origins(d.value)
                if isinstance(t, (ast.Tuple, ast.List)):
                    r = self._unpack(t, d.value, name)
                    if r is not None:
                        return r
            return {UNKNOWN}
        if isinstance(d, ast.AnnAssign):
            return self.origins(d.value) if d.value is not None else {FRESH}
        if isinstance(d, ast.AugAssign):
            prev = set()
            for dd in self.rd.defs_reaching_at(d, name):
                if dd is not d:
                    prev |= set(self._def_origin(dd, name))
            return prev | {FRESH}
        if isinstance(d, (ast.For, ast.AsyncFor)):
            r = self._target_origin(d.target, d.iter, name)
            return r if r is not None else {UNKNOWN}
        if isinstance(d, (ast.With, ast.AsyncWith)):
            for it in d.items:
                if it.optional_vars is not None and any(isinstance(x, ast.Name) and x.id == name for x in ast.walk(it.optional_vars)):
                    return self.origins(it.context_expr)
            return {UNKNOWN}
        if isinstance(d, (ast.If, ast.While, ast.Expr, ast.Return)):
            # walrus
            for x in ast.walk(d):
                if isinstance(x, ast.NamedExpr) and isinstance(x.target, ast.Name) and x.target.id == name:
                    return self.origins(x.value)
        return {FRESH}

    def _unpack(self, target, value, name) -> Optional[Iterable[tuple]]:
        elts = target.elts
        if isinstance(value, (ast.Tuple, ast.List)) and len(value.elts) == len(elts) and not any(isinstance(x, ast.Starred) for x in elts):
            for te, ve in zip(elts, value.elts):
                if isinstance(te, ast.Name) and te.id == name:
                    return self.origins(ve)
                if isinstance(te, (ast.Tuple, ast.List)):
                    r = self._unpack(te, ve, name)
                    if r is not None:
                        return r
            return None
        if any(isinstance(x, ast.Name) and x.id == name for x in ast.walk(target)):
            return steps(self.origins(value), "[*]")
        return None

    # ---- calls ----------------------------------------------------------------------------------------
    def _bind(self, call: ast.Call, g: FunctionInfo) -> Dict[str, FrozenSet[tuple]]:
        """Origins of the arguments, keyed by g's parameter names."""
        params = list(g.params)
        binding: Dict[str, FrozenSet[tuple]] = {}
        pos = list(params)
        if g.cls is not None and not g.is_static and isinstance(call.func, ast.Attribute):
            recv = call.func.value
            selfp = pos.pop(0) if pos else None
            if selfp:
                if isinstance(recv, ast.Call) and isinstance(recv.func, ast.Name) and recv.func.id == "super":
                    binding[selfp] = frozenset({("P", self.f.self_name, ())}) if self.f.self_name else frozenset({UNKNOWN})
                elif isinstance(self.eff.repo.resolve_expr(self.module, recv), ClassInfo):
                    # Class.method(obj, ...) : first positional is self
                    pos.insert(0, selfp)
                else:
                    binding[selfp] = self.origins(recv)
        elif g.cls is not None and not g.is_static and g.name == "__init__":
            if pos:
                binding[pos.pop(0)] = frozenset({FRESH})
        elif g.cls is not None and g.is_classmethod and pos:
            binding[pos.pop(0)] = frozenset({FRESH})
        i = 0
        for a in call.args:
            if isinstance(a, ast.Starred):
                break
            if i < len(pos):
                binding[pos[i]] = self.origins(a)
            i += 1
        for kw in call.keywords:
            if kw.arg is not None and kw.arg in params:
                binding[kw.arg] = self.origins(kw.value)
        return binding

    @staticmethod
    def _subst(o: tuple, binding) -> Set[tuple]:
        if o[0] == "P":
            out = set()
            for b in binding.get(o[1], ()):
                x = b
                for s in o[2]:
                    x = step(x, s)
                out.add(x)
            return out
        if o[0] == "C":
            return {shallow(x) for x in _FuncAnalysis._subst(o[1], binding)}
        if o[0] == "L":
            inner = set()
            for x in o[1]:
                key = x[1] if x[0] == "K" else None
                for y in _FuncAnalysis._subst(_untag(x), binding):
                    if y[0] in ("P", "G", "C"):
                        inner.add(("K", key, y) if key is not None else y)
                    elif y[0] == "L":
                        inner |= {_untag(z) for z in y[1]}
            return {("L", frozenset(inner)) if inner else FRESH}
        return {o}

    def _call_origins(self, call: ast.Call) -> Iterable[tuple]:
        fn = call.func
        name = fn.id if isinstance(fn, ast.Name) else (fn.attr if isinstance(fn, ast.Attribute) else None)
        targets, how = self.eff.cg.resolve_call(self.f, call)
        targets = [t for t in targets if how != "by-name" or not _too_generic(name)]
        if targets and how != "constructor":
            out: Set[tuple] = set()
            for g in targets:
                b = self._bind(call, g)
                for o in self.eff.ret.get((g, self.eff.variant_for(self, call, g)), ()):
                    out |= self._subst(o, b)
            return out or {FRESH}
        if how == "constructor":
            return {FRESH}
        if isinstance(fn, ast.Attribute) and fn.attr == "__class__":
            return {FRESH}          # self.__class__(...) constructs a new instance
        if isinstance(fn, ast.Call) and isinstance(fn.func, ast.Name) and fn.func.id == "type":
            return {FRESH}          # type(self)(...)
        if name in DEEP_COPIERS:
            return {FRESH}
        if isinstance(fn, ast.Name):
            if name in SHALLOW_COPIERS_FUNC and call.args:
                return {shallow(o) for o in self.origins(call.args[0])}
            if name in ("next",) and call.args:
                return steps(self.origins(call.args[0]), "[*]")
            if name == "iter" and call.args:
                return self.origins(call.args[0])
            if name == "getattr" and len(call.args) >= 2:
                return {step(o, ".?") for o in self.origins(call.args[0])}
            if name in _param_names(self.f):
                return {UNKNOWN}
            return {FRESH}
        if isinstance(fn, ast.Attribute):
            recv = self.origins(fn.value)
            if name == "copy":
                return {shallow(o) for o in recv}
            if name in ELEMENT_GETTERS:
                out = steps(recv, "[*]")
                if name in ("get", "setdefault", "pop") and len(call.args) >= 2:
                    out |= set(self.origins(call.args[1]))
                return out
            if name in STR_METHODS:
                return {FRESH}
            if how == "external":
                return {FRESH}
            return {UNKNOWN}
        return {UNKNOWN}

    # ---- events ------------------------------------------------------------------------------------------
    def _emit(self, stmt, origins: Iterable[tuple], how: str, via=()):
        for o in origins:
            if o[0] in ("P", "G"):
                self.events.append(Event(self.f, stmt, o, how, tuple(via)))
            elif o[0] == "U":
                self.eff.unknown_mutations += 1

    def run(self):
        f = self.f
        for n in walk_shallow(f.node):
            if isinstance(n, (ast.Assign, ast.AugAssign, ast.AnnAssign, ast.Delete, ast.Call, ast.Return)) and not self._is_live(n):
                continue
            if isinstance(n, (ast.Assign, ast.AugAssign, ast.AnnAssign, ast.Delete)):
                targets = n.targets if isinstance(n, (ast.Assign, ast.Delete)) else [n.target]
                for t in targets:
                    for tt in (t.elts if isinstance(t, (ast.Tuple, ast.List)) else [t]):
                        if isinstance(tt, ast.Subscript):
                            self._emit(n, self.origins(tt.value), f"item store `{norm(n, 90)}`")
                        elif isinstance(tt, ast.Attribute):
                            self._emit(n, steps(self.origins(tt.value), "." + tt.attr),
                                       f"attribute store `{norm(n, 90)}`")
                        elif isinstance(tt, ast.Name) and isinstance(n, ast.AugAssign) and isinstance(n.op, (ast.Add, ast.BitOr)) \
                                and self._listlike(n.value):
                            # `x += <list>` / `x |= <set/dict>` extends the container in place: a mutation of whatever x aliases
                            prev = set()
                            for dd in self.rd.defs_reaching_at(n, tt.id):
                                if dd is not n and (self.live is None or not isinstance(dd, ast.stmt) or dd in self.live):
                                    prev |= set(self._def_origin(dd, tt.id))
                            self._emit(n, prev, f"in-place container extension `{norm(n, 90)}`")
            if isinstance(n, ast.Call):
                self._call_effects(n)
            if isinstance(n, ast.Return) and n.value is not None:
                self.returns |= set(self.origins(n.value))
        # generators: yielded values count as returns
        for n in walk_shallow(f.node):
            if isinstance(n, ast.Yield) and n.value is not None:
                self.returns |= set(self.origins(n.value))
        self.returns = {o for o in self.returns if o[0] != "U"} or set()

    def _listlike(self, e, depth=0) -> bool:
        """Is `e` syntactically a list/set/dict-valued expression (so that `x += e` mutates x in place)?"""
        if depth > 4:
            return False
        if isinstance(e, (ast.List, ast.ListComp, ast.Set, ast.SetComp, ast.Dict, ast.DictComp)):
            return True
        if isinstance(e, ast.BinOp) and isinstance(e.op, ast.Add):
            return self._listlike(e.left, depth + 1) or self._listlike(e.right, depth + 1)
        if isinstance(e, ast.IfExp):
            return self._listlike(e.body, depth + 1) or self._listlike(e.orelse, depth + 1)
        if isinstance(e, ast.Call):
            fn = e.func
            nm = fn.id if isinstance(fn, ast.Name) else (fn.attr if isinstance(fn, ast.Attribute) else None)
            if nm in ("list", "sorted", "set", "dict", "split", "values", "keys", "items"):
                return True
            if nm in ("pop", "get", "setdefault") and len(e.args) >= 2:
                return self._listlike(e.args[1], depth + 1)
            return False
        if isinstance(e, ast.Name):
            for d in self.rd.defs_reaching(e):
                from .dataflow import assigned_value
                v = assigned_value(d, e.id)
                if v is not None and self._listlike(v, depth + 1):
                    return True
        return False

    def _call_effects(self, call: ast.Call):
        fn = call.func
        name = fn.id if isinstance(fn, ast.Name) else (fn.attr if isinstance(fn, ast.Attribute) else None)
        st = stmt_of(self.cfg, call) or call
        targets, how = self.eff.cg.resolve_call(self.f, call)
        if how == "by-name" and _too_generic(name):
            targets = []
        if how == "by-name" and targets:
            # a method found by NAME only: an object handled by frontend code is a frontend object (backend code: a backend object, ...);
            # candidates outside the caller's own sub-package are dropped when there is a candidate inside it
            def area(rel):
                parts = rel.split("/")
                return parts[1] if len(parts) > 2 else ""
            mine = [g for g in targets if area(g.module.rel) == area(self.f.module.rel)]
            if mine:
                targets = mine
        if targets:
            for g in targets:
                b = self._bind(call, g)
                gv = (g, self.eff.variant_for(self, call, g))
                for (p, path) in self.eff.mut.get(gv, ()):
                    for o in self._subst(("P", p, path), b):
                        self._emit(st, [o], f"call `{norm(call, 70)}` → {g.qualname} mutates its `{p}{''.join(path)}`", via=(g.qual,))
                for (mrel, gname, path) in self.eff.gmut.get(gv, ()):
                    self._emit(st, [("G", mrel, gname, path)], f"call `{norm(call, 70)}` → {g.qualname} mutates global {gname}", via=(g.qual,))
            if how != "by-name":
                return
        if isinstance(fn, ast.Attribute) and name in MUTATORS:
            # receiver is (or may be) a builtin container
            classes = self.eff.cg.expr_classes(self.f, fn.value)
            if classes and any(self.eff.repo.lookup_method(c, name) for c in classes):
                return
            self._emit(st, self.origins(fn.value), f"container mutation `{norm(call, 90)}`")


def analyse(eff: Effects, f: FunctionInfo, variant=None) -> "_FuncAnalysis":
    an = _FuncAnalysis(eff, f, variant)
    an.run()
    return an


def _too_generic(name: Optional[str]) -> bool:
    return name in MUTATORS or name in ELEMENT_GETTERS or name in STR_METHODS or name in (
        "copy", "run", "clear", "apply", "update", "get", "items", "keys", "values", "index", "format", "write", "read", "close")


def _param_names(f: FunctionInfo) -> Set[str]:
    out = set(f.params)
    g = f.parent
    while g is not None:
        out |= set(g.params)
        g = g.parent
    return out


def _all_local_names(f: FunctionInfo) -> Set[str]:
    out = set(f.params)
    for n in walk_shallow(f.node):
        if isinstance(n, ast.Name) and isinstance(n.ctx, ast.Store):
            out.add(n.id)
    return out


def fmt_origin(o: tuple) -> str:
    if o[0] == "P":
        return o[1] + "".join(o[2])
    if o[0] == "G":
        return f"{o[1]}::{o[2]}" + "".join(o[3])
    if o[0] == "C":
        return "copy(" + fmt_origin(o[1]) + ")"
    if o[0] == "L":
        return "fresh[" + ", ".join(sorted(fmt_origin(_untag(x)) for x in o[1])) + "]"
    return {"F": "fresh", "U": "unknown"}[o[0]]
