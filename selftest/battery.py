"""Mutation battery (DESIGN §7): the checker tested both ways on scratch copies.

Each variant is a textual edit of one file of <repo>/pyrates applied to a scratch copy (under a
fresh mkdtemp directory outside /repo and /verif, removed immediately afterwards):

* kind 'mutant': breaks the property while still parsing; the named rule must report a violation.
* kind 'twin'  : behaviour-preserving rewrite; the property's check must stay silent (exit 0).

A variant whose anchor text is not present in the tree under analysis (the tree was edited) is
counted as not applicable; it never fails the run.
"""
from __future__ import annotations

import importlib
import io
import os
import shutil
import sys
import tempfile
from concurrent.futures import ProcessPoolExecutor
from typing import Dict, List, Optional


def load_variants(prop: Optional[str] = None) -> List[dict]:
    out = []
    vdir = os.path.join(os.path.dirname(__file__), "variants")
    for fn in sorted(os.listdir(vdir)):
        if not fn.endswith(".py") or fn.startswith("_"):
            continue
        mod = importlib.import_module(f"selftest.variants.{fn[:-3]}")
        for v in getattr(mod, "VARIANTS", []):
            v = dict(v)
            v.setdefault("kind", "mutant")
            if prop is None or v["prop"] == prop:
                out.append(v)
    ids = [v["id"] for v in out]
    assert len(ids) == len(set(ids)), "duplicate variant ids"
    return out


def _transform(root: str, name: str) -> Optional[str]:
    """Whole-tree behaviour-preserving rewrites."""
    import ast
    if name == "unparse":
        # re-emit every module from its AST: drops comments, normalises quotes, parentheses, line breaks and positions
        for dp, dn, fns in os.walk(os.path.join(root, "pyrates")):
            for fn in fns:
                if fn.endswith(".py"):
                    path = os.path.join(dp, fn)
                    src = open(path, encoding="utf-8").read()
                    open(path, "w", encoding="utf-8").write(ast.unparse(ast.parse(src)) + "\n")
        return None
    if name == "pad-lines":
        # shift every line number: insert blank lines and a comment block at the top of each module and after each def line
        for dp, dn, fns in os.walk(os.path.join(root, "pyrates")):
            for fn in fns:
                if fn.endswith(".py"):
                    path = os.path.join(dp, fn)
                    lines = open(path, encoding="utf-8").read().split("\n")
                    out = ["# padding inserted by the self-test", "", ""]
                    for ln in lines:
                        out.append(ln)
                    open(path, "w", encoding="utf-8").write("\n".join(out))
        return None
    if name.startswith("patch:"):
        # a saved unified diff (behaviour-preserving refactoring or seeded breaking change), relative to /verif
        import subprocess
        pf = os.path.join(os.path.dirname(os.path.dirname(os.path.abspath(__file__))), name[len("patch:"):])
        if not os.path.exists(pf):
            return f"patch file {name[6:]} missing"
        dry = subprocess.run(["patch", "-p1", "-s", "-f", "--dry-run", "--no-backup-if-mismatch", "-i", pf], cwd=root, capture_output=True, text=True)
        if dry.returncode != 0:
            return "saved patch does not apply to this tree"
        r = subprocess.run(["patch", "-p1", "-s", "-f", "--no-backup-if-mismatch", "-i", pf], cwd=root, capture_output=True, text=True)
        return None if r.returncode == 0 else "saved patch does not apply to this tree"
    return f"unknown transform {name}"


def _apply(root: str, v: dict) -> Optional[str]:
    if v.get("transform"):
        return _transform(root, v["transform"])
    edits = v.get("edits") or [dict(file=v["file"], old=v["old"], new=v["new"])]
    for e in edits:
        path = os.path.join(root, e["file"])
        if not os.path.exists(path):
            return f"file {e['file']} missing"
        src = open(path, encoding="utf-8").read()
        cnt = src.count(e["old"])
        if cnt == 0:
            return f"anchor text not found in {e['file']}"
        if cnt > 1 and not e.get("all"):
            return f"anchor text ambiguous ({cnt}x) in {e['file']}"
        src = src.replace(e["old"], e["new"])
        open(path, "w", encoding="utf-8").write(src)
    return None


def run_variant(args) -> dict:
    v, repo_root = args
    from engine.cli import run_property
    tmp = tempfile.mkdtemp(prefix="pyr_verif_variant_")
    try:
        shutil.copytree(os.path.join(repo_root, "pyrates"), os.path.join(tmp, "pyrates"),
                        ignore=shutil.ignore_patterns("__pycache__", "*.pyc"))
        why = _apply(tmp, v)
        if why is not None:
            return {"id": v["id"], "kind": v["kind"], "outcome": "not-applicable", "why": why}
        code, viol, known, ctx, err = run_property(v["prop"], tmp, "quick", 0, write=False, quiet=True)
        rules_hit = sorted({o.rule for o in viol})
        if v["kind"] == "mutant":
            want = v.get("rule")
            hit = code == 1 and (want is None or want in rules_hit)
            if v.get("accept_error") and code == 2:
                hit = True
            outcome = "detected" if hit else "missed"
        else:
            outcome = "silent" if code == 0 else "false-alarm"
        return {"id": v["id"], "kind": v["kind"], "outcome": outcome, "exit": code, "rules_hit": rules_hit,
                "error": (err or "").splitlines()[0] if err else None,
                "first": (f"{viol[0].rule} {viol[0].construct}" if viol else None)}
    finally:
        shutil.rmtree(tmp, ignore_errors=True)


def run_battery(prop: Optional[str], repo_root: str, seed: int = 0, jobs: int = 16, cross_twins: bool = False) -> dict:
    variants = load_variants(prop)
    if cross_twins and prop is not None:
        # the property's check must also stay silent on the behaviour-preserving twins written for OTHER properties
        for v in load_variants(None):
            if v["kind"] == "twin" and v["prop"] != prop and not v.get("transform"):
                w = dict(v)
                w["id"] = f"{v['id']}@{prop}"
                w["prop"] = prop
                variants.append(w)
    results = []
    if variants:
        with ProcessPoolExecutor(max_workers=min(jobs, len(variants))) as ex:
            results = list(ex.map(run_variant, [(v, repo_root) for v in variants]))
    missed = [r["id"] for r in results if r["outcome"] == "missed"]
    fa = [r["id"] for r in results if r["outcome"] == "false-alarm"]
    summary = {
        "mutants_total": sum(1 for r in results if r["kind"] == "mutant" and r["outcome"] != "not-applicable"),
        "mutants_detected": sum(1 for r in results if r["outcome"] == "detected"),
        "twins_total": sum(1 for r in results if r["kind"] == "twin" and r["outcome"] != "not-applicable"),
        "twins_silent": sum(1 for r in results if r["outcome"] == "silent"),
        "cross_property_twins": sum(1 for r in results if "@" in r["id"] and r["outcome"] != "not-applicable"),
        "not_applicable": [r["id"] for r in results if r["outcome"] == "not-applicable"],
        "details": results,
    }
    return {"summary": summary, "missed": missed, "false_alarms": fa}


def main():
    import argparse, json
    ap = argparse.ArgumentParser()
    ap.add_argument("property", nargs="?")
    ap.add_argument("--repo", default="/repo")
    ap.add_argument("-v", action="store_true")
    ap.add_argument("--cross", action="store_true", help="also run the property's check on the twins of all other properties")
    a = ap.parse_args()
    res = run_battery(a.property.upper() if a.property else None, a.repo, cross_twins=a.cross)
    s = res["summary"]
    for r in s["details"]:
        if a.v or r["outcome"] in ("missed", "false-alarm", "not-applicable"):
            print(f"{r['outcome']:15s} {r['id']:22s} exit={r.get('exit')} hit={r.get('rules_hit')} {r.get('why') or r.get('error') or r.get('first') or ''}")
    print(f"mutants {s['mutants_detected']}/{s['mutants_total']}  twins {s['twins_silent']}/{s['twins_total']}  n/a {len(s['not_applicable'])}")
    return 1 if (res["missed"] or res["false_alarms"]) else 0


if __name__ == "__main__":
    sys.exit(main())
